#!/bin/bash
# confirm an independently seeded change:  tools/confirm_seed.sh <dir-with-patch.diff-demo.cpp-build.sh>
# 1. demo passes on the unchanged tree  2. patch applies, tree builds, the repository's suite passes
# 3. demo fails with the patch.  Works in a scratch worktree /tmp/confirm-wt (created on demand, kept between calls;
# remove it with: git -C /repo worktree remove --force /tmp/confirm-wt).
set -u
D=$(cd "$1" && pwd)
WT=/tmp/confirm-wt
if [ ! -d $WT ]; then
  git -C /repo worktree add --detach $WT HEAD >/dev/null 2>&1 || { echo "CONFIRM-ERROR cannot create worktree"; exit 2; }
fi
cd $WT && git checkout -q --detach $(git -C /repo rev-parse HEAD) 2>/dev/null; git checkout -q -- . ; git clean -qfd -e _build
[ -d _build ] || cmake -G Ninja -B _build -DCMAKE_BUILD_TYPE=RelWithDebInfo >/dev/null
echo "== demo on unchanged tree"
(cd $D && REPO=$WT OUT=/tmp/confirm-demo-$$ sh ./build.sh) > /tmp/confirm-un-$$.log 2>&1; rc0=$?
tail -2 /tmp/confirm-un-$$.log
git apply $D/patch.diff || { echo "CONFIRM-ERROR patch does not apply"; exit 2; }
echo "== build + suite with the change"
cmake --build _build -j8 2>&1 | grep -E "error|FAILED" | head -5
ctest --test-dir _build -j8 2>&1 | grep -E "tests passed|tests failed" ; suite=$(ctest --test-dir _build -j8 2>&1 | grep -c "100% tests passed")
echo "== demo with the change"
(cd $D && REPO=$WT OUT=/tmp/confirm-demo-$$ sh ./build.sh) > /tmp/confirm-ch-$$.log 2>&1; rc1=$?
tail -3 /tmp/confirm-ch-$$.log
git checkout -q -- . ; git clean -qfd -e _build
rm -f /tmp/confirm-demo-$$ /tmp/confirm-un-$$.log /tmp/confirm-ch-$$.log
echo "CONFIRM demo_unchanged_rc=$rc0 suite_ok=$suite demo_changed_rc=$rc1"
if [ $rc0 -eq 0 ] && [ $suite -ge 1 ] && [ $rc1 -ne 0 ]; then echo "CONFIRMED"; exit 0; else echo "NOT-CONFIRMED"; exit 1; fi
