#!/usr/bin/env python3
"""tools/eval_seed.py Cxx a [--tier quick]  : confirm an independently seeded change (tools/confirm_seed.sh), run the
property's check against it (tools/mutant.py), and file it under /verif/seeded/Cxx-a/ with meta.json"""
import json, os, shutil, subprocess, sys, time
V = os.path.dirname(os.path.dirname(os.path.abspath(__file__)))
prop, which = sys.argv[1], sys.argv[2]
tier = sys.argv[sys.argv.index("--tier") + 1] if "--tier" in sys.argv else "quick"
rnd = sys.argv[sys.argv.index("--round") + 1] if "--round" in sys.argv else "1"
src = ("/tmp/seeds/out/%s/%s" if rnd == "1" else "/tmp/seeds/out" + rnd + "/%s/%s") % (prop, which)
tag = which if rnd == "1" else "r%s%s" % (rnd, which)
dst = os.path.join(V, "seeded", "%s-%s" % (prop, tag))
if not os.path.isdir(src) and os.path.isdir(dst):
    src = dst
p = subprocess.run([os.path.join(V, "tools", "confirm_seed.sh"), src], capture_output=True, text=True)
confirmed = p.returncode == 0
conf_tail = "\n".join(p.stdout.strip().split("\n")[-8:])
print(conf_tail)
t0 = time.time()
m = subprocess.run([sys.executable, os.path.join(V, "tools", "mutant.py"), prop, os.path.join(src, "patch.diff"), "--tier", tier], capture_output=True, text=True)
out = m.stdout.strip().split("\n")
verdict = "CAUGHT" if m.returncode == 0 else ("MISSED" if m.returncode == 1 else "ERROR")
print("\n".join(out[-4:])[:1500])
if src != dst:
    os.makedirs(dst, exist_ok=True)
    for f in os.listdir(src):
        shutil.copy(os.path.join(src, f), os.path.join(dst, f))
notes = {}
try:
    notes = json.load(open(os.path.join(dst, "notes.json")))
except Exception:
    pass
meta_path = os.path.join(dst, "meta.json")
meta = json.load(open(meta_path)) if os.path.exists(meta_path) else {}
meta.update({
    "property": prop, "id": "%s-%s" % (prop, tag),
    "summary": notes.get("summary", meta.get("summary", "")),
    "needs_to_manifest": notes.get("needs", meta.get("needs_to_manifest", "")),
    "written_by": "independent sub-agent given only the property text and its own scratch worktree of /repo",
    "confirmed_by_me": confirmed,
    "confirmation": "tools/confirm_seed.sh: demo passes on the unchanged tree, patch applies, cmake build + 29/29 ctest entries pass with the change, demo fails with the change" if confirmed else "NOT confirmed: " + conf_tail[-400:],
})
runs = meta.setdefault("check_runs", [])
runs.append({"command": "tools/mutant.py %s seeded/%s-%s/patch.diff --tier %s" % (prop, prop, tag, tier), "verdict": verdict,
             "wall_s": round(time.time() - t0, 1), "detail": [l[:300] for l in out[-3:]]})
json.dump(meta, open(meta_path, "w"), indent=1)
print("SEED %s-%s confirmed=%s check=%s" % (prop, tag, confirmed, verdict))
