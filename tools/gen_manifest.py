#!/usr/bin/env python3
"""regenerates /verif/MANIFEST.json from props.json (one source of truth for commands and levels)"""
import json, os
V = os.path.dirname(os.path.dirname(os.path.abspath(__file__)))
cfg = json.load(open(os.path.join(V, "props.json")))
props = [json.loads(l) for l in open(os.path.join(V, "properties.jsonl"))]
hooks_commits = []
checks = []
na = []
for p in props:
    pid = p["id"]
    pc = cfg.get(pid)
    if not pc or pc.get("unclaimed"):
        na.append({"property_id": pid, "reason": (pc or {}).get("unclaimed", "check not built yet in this session (property-based harness planned in DESIGN.md section 5); nothing is claimed for it")})
        continue
    checks.append({
        "property_id": pid,
        "quick_cmd": "./check %s --tier quick" % pid,
        "thorough_cmd": "./check %s --tier thorough" % pid,
        "evidence_file": "/verif/evidence/%s.json" % pid,
        "replay_cmd_template": "./check %s --replay {path}" % pid,
        "engine": pc.get("engine", "rapidcheck"),
        "level_claimed": {"category": "exploration", "text": pc["level_text"], "design_ref": "DESIGN.md section 5, " + pid},
        "level_note": pc["level_note"],
        "technique": pc["technique"],
    })
m = {
    "version": 1,
    "setup_cmd": "./check --setup",
    "hooks": {
        "guard": "ROMEA_CORE_COMMON_VERIF",
        "enable": "every harness and every /repo translation unit a check compiles gets -DROMEA_CORE_COMMON_VERIF (clang++ -O1 -DNDEBUG + ASan/UBSan, or TSan for C19); no source hook exists in /repo, all observation points are public API",
        "baseline_off_cmd": "./check --baseline-off",
        "source_commits": hooks_commits,
        "add_only": True,
    },
    "engines": [
        {"name": "rapidcheck", "path": "/verif/engine/vf_main.hpp", "serves_properties": [c["property_id"] for c in checks],
         "kind_free_text": "property bodies written once over a draw source (vf::Src); driven by rapidcheck (generation + shrinking), by a tape replayer, by a bounded-exhaustive odometer and by libFuzzer byte decoding; python driver /verif/check builds the needed /repo translation units from the working tree with a content-addressed object cache"},
    ],
    "checks": checks,
    "not_applicable": na,
    "notes": "exit 0 held / exit 1 + VIOLATION line after 3x replay confirmation / exit 2 HARNESS-ERROR (build failure, vacuous class, flaky oracle). Known findings: /verif/known_findings.json (read-only at run time).",
}
json.dump(m, open(os.path.join(V, "MANIFEST.json"), "w"), indent=1)
print("checks:", len(checks), "not_applicable:", len(na))
