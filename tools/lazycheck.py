#!/usr/bin/env python3
"""rewrite  c.check(COND, vf::fmt(ARGS));  ->  VF_CHECK(c, COND, ARGS);  (message formatted only on failure)"""
import sys, re
def match_paren(s, i):
    # s[i] == '(' ; returns index of matching ')', skipping string / char literals
    depth = 0; k = i; n = len(s)
    while k < n:
        ch = s[k]
        if ch == '"':
            k += 1
            while s[k] != '"':
                k += 2 if s[k] == '\\' else 1
        elif ch == "'":
            k += 1
            while s[k] != "'":
                k += 2 if s[k] == '\\' else 1
        elif ch == '(':
            depth += 1
        elif ch == ')':
            depth -= 1
            if depth == 0:
                return k
        k += 1
    return -1
for path in sys.argv[1:]:
    s = open(path).read(); out = []; pos = 0; n = 0
    while True:
        i = s.find("c.check(", pos)
        if i < 0: break
        close = match_paren(s, i + len("c.check"))
        body = s[i + len("c.check("):close]
        # split COND , vf::fmt(ARGS) at top level
        j = body.find(", vf::fmt(")
        if j < 0 or close < 0:
            out.append(s[pos:close + 1]); pos = close + 1; continue
        fstart = j + len(", vf::fmt")
        fclose = match_paren(body, fstart)
        if fclose != len(body) - 1:
            out.append(s[pos:close + 1]); pos = close + 1; continue
        cond = body[:j]; args = body[fstart + 1:fclose]
        out.append(s[pos:i]); out.append("VF_CHECK(c, " + cond + ", " + args + ")"); pos = close + 1; n += 1
    out.append(s[pos:])
    open(path, "w").write("".join(out))
    print(path, n, "rewritten")
