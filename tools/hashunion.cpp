// prints the number of distinct 64-bit values over all given binary files
#include <algorithm>
#include <cstdint>
#include <cstdio>
#include <vector>
int main(int argc, char ** argv)
{
  std::vector<uint64_t> v;
  for (int k = 1; k < argc; ++k) {
    FILE * f = fopen(argv[k], "rb");
    if (!f) {fprintf(stderr, "cannot open %s\n", argv[k]); return 1;}
    uint64_t buf[8192];
    size_t n;
    while ((n = fread(buf, 8, 8192, f)) > 0) {v.insert(v.end(), buf, buf + n);}
    fclose(f);
  }
  std::sort(v.begin(), v.end());
  v.erase(std::unique(v.begin(), v.end()), v.end());
  printf("%zu\n", v.size());
  return 0;
}
