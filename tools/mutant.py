#!/usr/bin/env python3
"""sensitivity testing: apply a mutant (from design-notes/mutants-screened.json by name, or a patch file)
to a scratch copy of /repo outside /repo and /verif, run a property's check against the copy, delete it.

  tools/mutant.py <property> <mutant-name|patch.diff> [--tier quick] [--seed N] [--keep]
exit status: 0 if the check reported a VIOLATION (mutant caught), 1 if it stayed silent, 2 otherwise."""
import json, os, shutil, subprocess, sys, tempfile
V = os.path.dirname(os.path.dirname(os.path.abspath(__file__)))
def main():
    args = [a for a in sys.argv[1:] if not a.startswith("--")]
    tier = "quick"; seed = "1"
    av = sys.argv[1:]
    for i, a in enumerate(av):
        if a == "--tier": tier = av[i + 1]
        if a == "--seed": seed = av[i + 1]
    args = [a for a in args if a not in (tier, seed)] if False else args
    prop, mut = args[0], args[1]
    scratch = tempfile.mkdtemp(prefix="romea-mut-", dir="/tmp")
    try:
        for d in ("include", "src", "test"):
            shutil.copytree(os.path.join("/repo", d), os.path.join(scratch, d))
        if os.path.exists(mut):
            p = subprocess.run(["patch", "-p1", "-d", scratch, "-i", os.path.abspath(mut)], capture_output=True, text=True)
            if p.returncode != 0:
                print("MUTANT-ERROR patch does not apply:", p.stdout, p.stderr); return 2
        else:
            ms = json.load(open(os.path.join(V, "design-notes", "mutants-screened.json")))["mutants"]
            extra = os.path.join(V, "design-notes", "mutants-extra.json")
            if os.path.exists(extra):
                ms += json.load(open(extra))["mutants"]
            m = [x for x in ms if x["name"] == mut]
            if not m:
                print("MUTANT-ERROR unknown mutant", mut); return 2
            m = m[0]
            path = os.path.join(scratch, m["file"])
            s = open(path).read()
            if s.count(m["old"]) < 1:
                print("MUTANT-ERROR old text not found in", m["file"]); return 2
            s = s.replace(m["old"], m["new"], 1)
            open(path, "w").write(s)
        env = dict(os.environ, VERIF_REPO=scratch, VERIF_OUT=os.path.join(scratch, "out"), VERIF_SEED=seed)
        p = subprocess.run([os.path.join(V, "check"), prop, "--tier", tier], env=env, capture_output=True, text=True)
        tail = "\n".join((p.stdout + p.stderr).strip().split("\n")[-6:])
        print(tail)
        if p.returncode == 1 and "VIOLATION property=" in p.stdout:
            print("MUTANT %s on %s: CAUGHT" % (mut, prop)); return 0
        if p.returncode == 0:
            print("MUTANT %s on %s: MISSED" % (mut, prop)); return 1
        print("MUTANT %s on %s: rc=%d" % (mut, prop, p.returncode)); return 2
    finally:
        if "--keep" not in sys.argv:
            shutil.rmtree(scratch, ignore_errors=True)
sys.exit(main())
