#!/usr/bin/env python3
"""merge a JSON fragment {"Cxx": {...}} from stdin into props.json (deep-merge at the property level), regenerate MANIFEST"""
import json, sys, os, subprocess, fcntl
V = os.path.dirname(os.path.dirname(os.path.abspath(__file__)))
_lock = open(os.path.join(V, ".props.lock"), "w")
fcntl.flock(_lock, fcntl.LOCK_EX)
p = json.load(open(os.path.join(V, "props.json")))
frag = json.load(sys.stdin)
for k, v in frag.items():
    if k in p and isinstance(v, dict):
        p[k].update(v)
    else:
        p[k] = v
p = dict(sorted(p.items()))
json.dump(p, open(os.path.join(V, "props.json"), "w"), indent=1)
subprocess.run([sys.executable, os.path.join(V, "tools", "gen_manifest.py")])
