// vf.hpp - shared support for the property harnesses of /verif.
//
// One property body, four ways of driving it:
//   RC      rapidcheck generates every draw (shrinking as one value, seed from the driver)
//   REPLAY  draws are read back from a recorded tape (bypasses rapidcheck entirely)
//   ENUM    integer draws are enumerated exhaustively by an odometer (bounded-exhaustive search)
//   FUZZ    draws are decoded from libFuzzer bytes (structure-aware decoding)
//
// A *case* is fully described by its tape: the ordered list of named values the body drew.
// The tape is what is hashed (distinct count), written to current.json before the library is
// called (crash / hang attribution), to last_failure.json when the oracle fails, and to the
// evidence samples.  Doubles are stored as C99 hex-floats so the round trip is bit exact.
#pragma once

#include <cinttypes>
#include <cmath>
#include <cstdarg>
#include <cstdint>
#include <cstdio>
#include <cstdlib>
#include <cstring>
#include <fcntl.h>
#include <functional>
#include <limits>
#include <map>
#include <set>
#include <string>
#include <sys/mman.h>
#include <unistd.h>
#include <unordered_set>
#include <vector>

namespace vf {

// ------------------------------------------------------------------------------------------------
// small utilities
// ------------------------------------------------------------------------------------------------
inline std::string fmt(const char * f, ...) __attribute__((format(printf, 1, 2)));
inline std::string fmt(const char * f, ...)
{
  char buf[4096];
  va_list ap;
  va_start(ap, f);
  vsnprintf(buf, sizeof buf, f, ap);
  va_end(ap);
  return std::string(buf);
}

inline std::string hexd(double d)
{
  char b[64];
  snprintf(b, sizeof b, "%a", d);
  return b;
}

inline std::string jsonEscape(const std::string & s)
{
  std::string o;
  for (unsigned char ch : s) {
    if (ch == '"' || ch == '\\') {o += '\\'; o += ch;} else if (ch == '\n') {
      o += "\\n";
    } else if (ch < 0x20) {o += fmt("\\u%04x", ch);} else {o += ch;}
  }
  return o;
}

inline std::string jsonNumber(double d)
{
  if (std::isnan(d)) {return "\"nan\"";}
  if (std::isinf(d)) {return d > 0 ? "\"inf\"" : "\"-inf\"";}
  return fmt("%.17g", d);
}

// splitmix64: deterministic content derived from a seed that the generator drew.
struct Rng
{
  uint64_t s;
  explicit Rng(uint64_t seed)
  : s(seed) {}
  uint64_t next()
  {
    uint64_t z = (s += 0x9e3779b97f4a7c15ULL);
    z = (z ^ (z >> 30)) * 0xbf58476d1ce4e5b9ULL;
    z = (z ^ (z >> 27)) * 0x94d049bb133111ebULL;
    return z ^ (z >> 31);
  }
  // uniform in [0,1)
  double u() {return (next() >> 11) * (1.0 / 9007199254740992.0);}
  double uniform(double lo, double hi) {return lo + (hi - lo) * u();}
  uint64_t below(uint64_t n) {return n ? next() % n : 0;}
  int64_t range(int64_t lo, int64_t hi) {return lo + static_cast<int64_t>(below(hi - lo + 1));}
  double gauss()
  {
    double u1 = u(), u2 = u();
    if (u1 < 1e-300) {u1 = 1e-300;}
    return std::sqrt(-2.0 * std::log(u1)) * std::cos(6.283185307179586476925 * u2);
  }
};

// ------------------------------------------------------------------------------------------------
// tape
// ------------------------------------------------------------------------------------------------
// bytes reserved for a draw name in the binary case image (names are never longer than 95 characters)
constexpr size_t kCaseNameBytes = 96;

struct Entry
{
  const char * name;  // string literal (generation) or interned string (replay)
  char kind;  // 'i' integer, 'r' real
  int64_t i;
  double d;
};

inline const char * intern(const std::string & s)
{
  static std::set<std::string> pool;
  return pool.insert(s).first->c_str();
}
using Tape = std::vector<Entry>;

inline uint64_t hashTape(const Tape & t)
{
  uint64_t h = 1469598103934665603ULL;
  auto mix = [&](const void * p, size_t n) {
      const unsigned char * b = static_cast<const unsigned char *>(p);
      for (size_t k = 0; k < n; ++k) {h ^= b[k]; h *= 1099511628211ULL;}
    };
  for (const auto & e : t) {
    mix(e.name, strlen(e.name));
    mix(&e.kind, 1);
    if (e.kind == 'i') {mix(&e.i, 8);} else {mix(&e.d, 8);}
  }
  return h;
}

inline std::string tapeJson(const Tape & t)
{
  std::string o = "[";
  bool first = true;
  for (const auto & e : t) {
    if (!first) {o += ",";}
    first = false;
    if (e.kind == 'i') {
      o += fmt("[\"%s\",\"i\",%" PRId64 "]", jsonEscape(e.name).c_str(), e.i);
    } else {
      o += fmt(
        "[\"%s\",\"r\",\"%s\",%s]", jsonEscape(e.name).c_str(), hexd(e.d).c_str(),
        jsonNumber(e.d).c_str());
    }
  }
  return o + "]";
}

// ------------------------------------------------------------------------------------------------
// minimal JSON reader (objects, arrays, strings, numbers, true/false/null) - enough for tapes
// ------------------------------------------------------------------------------------------------
struct JVal
{
  enum T { NUL, NUM, STR, ARR, OBJ, BOOL } t = NUL;
  double num = 0;
  bool isInt = false;
  int64_t inum = 0;
  std::string str;
  std::vector<JVal> arr;
  std::vector<std::pair<std::string, JVal>> obj;
  const JVal * get(const std::string & k) const
  {
    for (const auto & kv : obj) {if (kv.first == k) {return &kv.second;}}
    return nullptr;
  }
};

struct JParser
{
  const std::string & s;
  size_t p = 0;
  bool ok = true;
  explicit JParser(const std::string & str)
  : s(str) {}
  void ws() {while (p < s.size() && (s[p] == ' ' || s[p] == '\n' || s[p] == '\t' || s[p] == '\r')) {++p;}}
  JVal parse()
  {
    ws();
    JVal v;
    if (p >= s.size()) {ok = false; return v;}
    char c = s[p];
    if (c == '{') {
      v.t = JVal::OBJ; ++p; ws();
      if (p < s.size() && s[p] == '}') {++p; return v;}
      while (ok) {
        ws();
        JVal k = parse();
        if (k.t != JVal::STR) {ok = false; break;}
        ws();
        if (p >= s.size() || s[p] != ':') {ok = false; break;}
        ++p;
        JVal val = parse();
        v.obj.emplace_back(k.str, val);
        ws();
        if (p < s.size() && s[p] == ',') {++p; continue;}
        if (p < s.size() && s[p] == '}') {++p; break;}
        ok = false;
      }
    } else if (c == '[') {
      v.t = JVal::ARR; ++p; ws();
      if (p < s.size() && s[p] == ']') {++p; return v;}
      while (ok) {
        v.arr.push_back(parse());
        ws();
        if (p < s.size() && s[p] == ',') {++p; continue;}
        if (p < s.size() && s[p] == ']') {++p; break;}
        ok = false;
      }
    } else if (c == '"') {
      v.t = JVal::STR; ++p;
      while (p < s.size() && s[p] != '"') {
        if (s[p] == '\\' && p + 1 < s.size()) {
          ++p;
          char e = s[p];
          if (e == 'n') {v.str += '\n';} else if (e == 't') {v.str += '\t';} else if (e == 'u') {
            unsigned code = 0;
            sscanf(s.substr(p + 1, 4).c_str(), "%x", &code);
            v.str += static_cast<char>(code);
            p += 4;
          } else {v.str += e;}
          ++p;
        } else {v.str += s[p++];}
      }
      ++p;
    } else if (c == 't' && s.compare(p, 4, "true") == 0) {
      v.t = JVal::BOOL; v.num = 1; p += 4;
    } else if (c == 'f' && s.compare(p, 5, "false") == 0) {
      v.t = JVal::BOOL; v.num = 0; p += 5;
    } else if (c == 'n' && s.compare(p, 4, "null") == 0) {
      v.t = JVal::NUL; p += 4;
    } else {
      size_t q = p;
      bool isint = true;
      while (q < s.size() && (isdigit(s[q]) || s[q] == '-' || s[q] == '+' || s[q] == '.' || s[q] == 'e' || s[q] == 'E')) {
        if (s[q] == '.' || s[q] == 'e' || s[q] == 'E') {isint = false;}
        ++q;
      }
      if (q == p) {ok = false; return v;}
      std::string tok = s.substr(p, q - p);
      v.t = JVal::NUM;
      v.num = strtod(tok.c_str(), nullptr);
      v.isInt = isint;
      if (isint) {v.inum = strtoll(tok.c_str(), nullptr, 10);}
      p = q;
    }
    return v;
  }
};

inline bool readFile(const std::string & path, std::string & out)
{
  FILE * f = fopen(path.c_str(), "rb");
  if (!f) {return false;}
  char buf[65536];
  size_t n;
  out.clear();
  while ((n = fread(buf, 1, sizeof buf, f)) > 0) {out.append(buf, n);}
  fclose(f);
  return true;
}

inline bool writeFile(const std::string & path, const std::string & content)
{
  FILE * f = fopen(path.c_str(), "wb");
  if (!f) {return false;}
  fwrite(content.data(), 1, content.size(), f);
  fclose(f);
  return true;
}

inline bool tapeFromJson(const JVal & root, Tape & tape, std::string & sub)
{
  const JVal * t = root.get("tape");
  const JVal * sb = root.get("sub");
  if (!t || t->t != JVal::ARR) {return false;}
  if (sb && sb->t == JVal::STR) {sub = sb->str;}
  tape.clear();
  for (const auto & e : t->arr) {
    if (e.t != JVal::ARR || e.arr.size() < 3) {return false;}
    Entry en;
    en.name = intern(e.arr[0].str);
    en.kind = e.arr[1].str.empty() ? '?' : e.arr[1].str[0];
    en.i = 0; en.d = 0;
    if (en.kind == 'i') {
      en.i = e.arr[2].inum;
    } else if (en.kind == 'r') {
      if (e.arr[2].t == JVal::STR) {en.d = strtod(e.arr[2].str.c_str(), nullptr);} else {en.d = e.arr[2].num;}
    } else {return false;}
    tape.push_back(en);
  }
  return true;
}

// ------------------------------------------------------------------------------------------------
// exceptions used for control flow inside a property body
// ------------------------------------------------------------------------------------------------
struct Failure {std::string msg;};
struct Skip {};           // case is outside the quantifier (counted, never a verdict)
struct ReplayMismatch {std::string msg;};
struct EnumNotMine {};

// ------------------------------------------------------------------------------------------------
// Src: where draws come from
// ------------------------------------------------------------------------------------------------
class Src
{
public:
  enum Mode { RC, REPLAY, ENUM, FUZZ };
  Mode mode = REPLAY;
  Tape tape;      // recorded (RC/ENUM/FUZZ) or to be replayed (REPLAY)
  size_t pos = 0;  // REPLAY cursor
  double frac = 1.0;  // structural size fraction in [0,1] (from rapidcheck's size)

  // raw integer source, inclusive bounds, installed by the driver of the mode
  std::function<int64_t(int64_t, int64_t)> raw;

  void beginCase()
  {
    if (mode != REPLAY) {tape.clear();}
    pos = 0;
  }

  // ---- recorded draws ---------------------------------------------------------------------------
  int64_t i(const char * name, int64_t lo, int64_t hi)
  {
    if (mode == REPLAY) {
      if (pos >= tape.size()) {
        // an older tape replayed by a harness that has since gained integer draws at the end of its sequence
        // (flags / picks selecting additional checks): they default to their lower bound, the first alternative
        fprintf(stderr, "note: tape ends before draw '%s'; using its lower bound %" PRId64 "\n", name, lo);
        tape.push_back(Entry{intern(name), 'i', lo, 0.0});
        pos = tape.size();
        return lo;
      }
      const Entry & e = nextEntry(name, 'i');
      if (e.i < lo || e.i > hi) {
        throw ReplayMismatch{fmt("tape value %s=%" PRId64 " outside [%" PRId64 ",%" PRId64 "]", name, e.i, lo, hi)};
      }
      return e.i;
    }
    int64_t v = (lo >= hi) ? lo : raw(lo, hi);
    tape.push_back(Entry{name, 'i', v, 0.0});
    return v;
  }

  // structural length: range grows with the rapidcheck size
  int64_t len(const char * name, int64_t lo, int64_t hi)
  {
    if (mode == REPLAY) {return i(name, lo, hi);}
    int64_t top = lo + static_cast<int64_t>(std::ceil((hi - lo) * frac));
    if (top > hi) {top = hi;}
    if (top < lo) {top = lo;}
    int64_t v = (lo >= top) ? lo : raw(lo, top);
    tape.push_back(Entry{name, 'i', v, 0.0});
    return v;
  }

  bool flag(const char * name, int num = 1, int den = 2)
  {
    // true with probability num/den; shrinks toward false
    if (mode == REPLAY) {return i(name, 0, 1) != 0;}
    int64_t k = raw(0, den - 1);
    bool v = k >= den - num;
    tape.push_back(Entry{name, 'i', v ? 1 : 0, 0.0});
    return v;
  }

  // weighted choice, returns the index; put the simplest alternative first (shrink target)
  size_t pick(const char * name, std::initializer_list<int> weights)
  {
    const int64_t n = static_cast<int64_t>(weights.size());
    if (mode == REPLAY) {return static_cast<size_t>(i(name, 0, n - 1));}
    if (mode == ENUM) {return static_cast<size_t>(i(name, 0, n - 1));}
    int64_t total = 0;
    for (int w : weights) {total += w;}
    int64_t k = raw(0, total - 1);
    size_t idx = 0;
    for (int w : weights) {
      if (k < w) {break;}
      k -= w; ++idx;
    }
    tape.push_back(Entry{name, 'i', static_cast<int64_t>(idx), 0.0});
    return idx;
  }

  uint64_t seed(const char * name)
  {
    return static_cast<uint64_t>(i(name, 0, (int64_t(1) << 62) - 1));
  }

  // record an externally computed real (REPLAY returns the recorded one)
  template<typename F>
  double real(const char * name, F && make)
  {
    if (mode == REPLAY) {return nextEntry(name, 'r').d;}
    double v = make();
    tape.push_back(Entry{name, 'r', 0, v});
    return v;
  }

  // uniform on a 2^40 lattice of [lo,hi] - no boundary bias
  double uni(const char * name, double lo, double hi)
  {
    return real(name, [&] {return rawUniform(lo, hi);});
  }

  // boundary-biased real in [lo,hi]: end points, their inner neighbours, 0/±1, sixteenths, uniform
  double r(const char * name, double lo, double hi)
  {
    return real(
      name, [&]() -> double {
        int64_t cls = raw(0, 9);
        if (cls == 0) {
          double cand[8] = {0.0, lo, hi, std::nextafter(lo, hi), std::nextafter(hi, lo), 1.0, -1.0,
            0.5 * (lo + hi)};
          int64_t k = raw(0, 7);
          double v = cand[k];
          if (!(v >= lo && v <= hi)) {v = lo;}
          return v;
        }
        if (cls <= 2) {
          int64_t k = raw(0, 16);
          double v = lo + (hi - lo) * (static_cast<double>(k) / 16.0);
          return clampTo(v, lo, hi);
        }
        return rawUniform(lo, hi);
      });
  }

  // log-uniform positive real in [lo,hi] with the ends and powers of ten as special values
  double rlog(const char * name, double lo, double hi)
  {
    return real(
      name, [&]() -> double {
        int64_t cls = raw(0, 9);
        if (cls == 0) {
          int64_t k = raw(0, 1);
          return k ? hi : lo;
        }
        if (cls <= 2) {
          int64_t e0 = static_cast<int64_t>(std::ceil(std::log10(lo) - 1e-12));
          int64_t e1 = static_cast<int64_t>(std::floor(std::log10(hi) + 1e-12));
          if (e0 <= e1) {
            double v = std::pow(10.0, static_cast<double>(raw(e0, e1)));
            return clampTo(v, lo, hi);
          }
        }
        double v = std::exp(rawUniform(std::log(lo), std::log(hi)));
        return clampTo(v, lo, hi);
      });
  }

  // value packed around x: x ± 10^-k (kmin ≤ k ≤ kmax) or x ± j ulps (j ≤ 8), clamped to [lo,hi]
  double near(const char * name, double x, double kmin, double kmax, double lo, double hi)
  {
    return real(
      name, [&]() -> double {
        int64_t cls = raw(0, 3);
        int64_t sgn = raw(0, 1) ? 1 : -1;
        double v;
        if (cls == 0) {
          int64_t j = raw(0, 8);
          v = x;
          for (int64_t q = 0; q < j; ++q) {v = std::nextafter(v, sgn > 0 ? INFINITY : -INFINITY);}
        } else {
          double k = rawUniform(kmin, kmax);
          v = x + sgn * std::pow(10.0, -k);
        }
        return clampTo(v, lo, hi);
      });
  }

  // k / 2^bits with integer k such that the value lies in [lo,hi]: exactly representable constants
  double dyadic(const char * name, double lo, double hi, int bits)
  {
    return real(
      name, [&]() -> double {
        const double sc = std::ldexp(1.0, bits);
        int64_t klo = static_cast<int64_t>(std::ceil(lo * sc));
        int64_t khi = static_cast<int64_t>(std::floor(hi * sc));
        if (khi < klo) {khi = klo;}
        // shrink toward 0 if inside
        int64_t k;
        if (klo <= 0 && khi >= 0) {
          int64_t m = raw(0, std::max(-klo, khi));
          int64_t sgn = raw(0, 1);
          k = sgn ? -m : m;
          if (k < klo) {k = klo;}
          if (k > khi) {k = khi;}
        } else {k = raw(klo, khi);}
        return static_cast<double>(k) / sc;
      });
  }

  double rawUniform(double lo, double hi)
  {
    if (!(hi > lo)) {return lo;}
    const int64_t N = int64_t(1) << 40;
    int64_t k = raw(0, N);
    double v = lo + (hi - lo) * (static_cast<double>(k) / static_cast<double>(N));
    return clampTo(v, lo, hi);
  }

  static double clampTo(double v, double lo, double hi)
  {
    if (v < lo) {return lo;}
    if (v > hi) {return hi;}
    return v;
  }

private:
  const Entry & nextEntry(const char * name, char kind)
  {
    if (pos >= tape.size()) {
      throw ReplayMismatch{fmt("tape exhausted at draw '%s'", name)};
    }
    const Entry & e = tape[pos++];
    if (strcmp(e.name, name) != 0 || e.kind != kind) {
      throw ReplayMismatch{fmt(
                "tape entry %zu is %s/%c, body asked for %s/%c", pos - 1, e.name, e.kind,
                name, kind)};
    }
    return e;
  }
};

// ------------------------------------------------------------------------------------------------
// per-process statistics
// ------------------------------------------------------------------------------------------------
struct Sample
{
  std::string cls;
  std::string json;
};

struct Stats
{
  uint64_t evaluations = 0;
  uint64_t nontrivial = 0;
  uint64_t skipped = 0;
  std::map<std::string, uint64_t> classes;
  std::map<const char *, uint64_t> classesFast;   // keyed by literal address, merged on output
  std::map<const char *, double> maximaFast;
  std::map<std::string, uint64_t> known;                 // known-finding id -> hits
  std::map<std::string, std::string> knownWitness;       // first case per id
  std::map<std::string, double> maxima;                  // measured worst residuals
  std::unordered_set<uint64_t> hashes;
  size_t hashCap = 6000000;
  bool hashCapped = false;
  std::vector<Sample> samples;
  std::map<std::string, int> samplesPerClass;
  std::map<const char *, int> samplesFast;
};

// ------------------------------------------------------------------------------------------------
// Ctx: what a property body sees
// ------------------------------------------------------------------------------------------------
struct Ctx
{
  Src & s;
  Stats & st;
  unsigned char * commitBuf = nullptr;  // mmap'ed current.bin (nullptr = disabled)
  size_t commitCap = 0;
  bool nontriv = false;
  std::vector<const char *> labels;
  std::string noteText;
  std::vector<std::pair<std::string, std::string>> knownHits;
  bool committed = false;
  uint64_t enumShard = 0, enumShards = 1, enumLeaf = 0;
  std::string subName;

  Ctx(Src & src, Stats & stats)
  : s(src), st(stats) {}

  void label(const char * l) {labels.push_back(l);}   // pass string literals (or vf::intern)
  void label(const std::string & l) {labels.push_back(intern(l));}
  void labelIf(bool b, const char * l) {if (b) {labels.push_back(l);}}
  void nontrivial(bool b = true) {nontriv = nontriv || b;}
  void note(const std::string & n) {noteText += n;}
  void maxStat(const char * k, double v)   // k must be a string literal
  {
    auto it = st.maximaFast.find(k);
    if (it == st.maximaFast.end()) {st.maximaFast[k] = v;} else if (v > it->second || std::isnan(v)) {it->second = v;}
  }

  [[noreturn]] void fail(const std::string & msg) {throw Failure{msg};}
  void check(bool cond, const std::string & msg) {if (!cond) {throw Failure{msg};}}
  [[noreturn]] void skip() {throw Skip{};}
  // a defect of the harness itself (never a verdict about the library): the process exits with status 3,
  // which the driver reports as HARNESS-ERROR
  void harnessCheck(bool cond, const std::string & msg)
  {
    if (!cond) {
      fprintf(stderr, "HARNESS-ERROR harness self-check failed: %s\n", msg.c_str());
      fflush(stderr);
      _exit(3);
    }
  }

  // a recorded known finding was matched by its signature
  void known(const std::string & id, const std::string & what) {knownHits.emplace_back(id, what);}

  std::string caseJson(const std::string & message = "") const
  {
    std::string o = "{\"sub\":\"" + jsonEscape(subName) + "\",\"tape\":" + tapeJson(s.tape);
    if (!noteText.empty()) {o += ",\"note\":\"" + jsonEscape(noteText) + "\"";}
    if (!message.empty()) {o += ",\"message\":\"" + jsonEscape(message) + "\"";}
    return o + "}";
  }

  // call after the last draw and before the first call into the library: logs the case so that a
  // crash / sanitizer abort / hang can be attributed; in ENUM mode implements sharding.
  void commit()
  {
    committed = true;
    if (s.mode == Src::ENUM) {
      uint64_t leaf = enumLeaf;
      if (enumShards > 1 && (leaf % enumShards) != enumShard) {throw EnumNotMine{};}
    }
    if (commitBuf) {writeBinary(commitBuf, commitCap);}
  }

  // binary image of the case: [u32 valid=0][u32 n][sub name 64][n x (name 96, kind 1, pad 7, i64, f64)]
  // then valid=1; survives any abnormal termination because the region is a shared file mapping.
  void writeBinary(unsigned char * buf, size_t cap) const
  {
    const size_t rec = kCaseNameBytes + 8 + 8 + 8;
    size_t n = s.tape.size();
    if (8 + 64 + n * rec > cap) {n = (cap - 72) / rec;}
    uint32_t zero = 0, one = 1, n32 = static_cast<uint32_t>(n);
    memcpy(buf, &zero, 4);
    memcpy(buf + 4, &n32, 4);
    char sb[64] = {0};
    strncpy(sb, subName.c_str(), 63);
    memcpy(buf + 8, sb, 64);
    unsigned char * p = buf + 72;
    for (size_t k = 0; k < n; ++k) {
      const Entry & e = s.tape[k];
      char nb[kCaseNameBytes] = {0};
      strncpy(nb, e.name, kCaseNameBytes - 1);
      memcpy(p, nb, kCaseNameBytes);
      p[kCaseNameBytes] = static_cast<unsigned char>(e.kind);
      memcpy(p + kCaseNameBytes + 8, &e.i, 8);
      memcpy(p + kCaseNameBytes + 16, &e.d, 8);
      p += rec;
    }
    memcpy(buf, &one, 4);
  }
};

// lazily formatted check: the message is only built when the condition fails
#define VF_CHECK(ctx, cond, ...) do {if (!(cond)) {(ctx).fail(vf::fmt(__VA_ARGS__));}} while (0)

using Body = void (*)(Ctx &);

struct Sub
{
  const char * name;
  Body body;
  const char * rule;  // generator + non-triviality rule, in words (goes to the evidence)
};

// ------------------------------------------------------------------------------------------------
// numeric helpers shared by the oracles
// ------------------------------------------------------------------------------------------------
template<typename S>
constexpr double epsOf() {return static_cast<double>(std::numeric_limits<S>::epsilon());}

inline bool finite(double v) {return std::isfinite(v);}

// |a-b| modulo 2*pi, in [0, pi]
inline double angDiff(double a, double b)
{
  double d = std::fmod(a - b, 6.283185307179586476925);
  if (d > 3.141592653589793238463) {d -= 6.283185307179586476925;}
  if (d < -3.141592653589793238463) {d += 6.283185307179586476925;}
  return std::fabs(d);
}

}  // namespace vf
