// vf_main.hpp - command-line runner shared by every harness (include once, in the harness TU).
//
//   <harness> list
//   <harness> run    <sub> <outdir> <cases> <seed> <maxsize>      rapidcheck search
//   <harness> enum   <sub> <outdir> <shard> <nshards>             bounded-exhaustive enumeration
//   <harness> replay <sub|-> <file.json>                          one case, no rapidcheck
//
// exit codes of the harness process (the python driver turns them into the /verif protocol):
//   0 every executed case satisfied the oracle     1 a case failed (last_failure.json written)
//   3 harness usage / internal error               5 replay passed but matched a known finding
#pragma once

#include "vf.hpp"
#include <ctime>

#ifndef VF_NO_RAPIDCHECK
#include <rapidcheck.h>
#endif

namespace vf {

inline void writeStats(const std::string & outdir, const Stats & st, const Sub & sub, const char * mode)
{
  std::string o = "{";
  o += fmt("\"sub\":\"%s\",\"mode\":\"%s\",", sub.name, mode);
  o += fmt("\"evaluations\":%" PRIu64 ",\"nontrivial\":%" PRIu64 ",\"skipped\":%" PRIu64 ",",
      st.evaluations, st.nontrivial, st.skipped);
  o += fmt("\"distinct_nontrivial_local\":%zu,\"hash_capped\":%s,", st.hashes.size(),
      st.hashCapped ? "true" : "false");
  o += "\"rule\":\"" + jsonEscape(sub.rule) + "\",";
  o += "\"classes\":{";
  bool first = true;
  std::map<std::string, uint64_t> classes = st.classes;
  for (const auto & kv : st.classesFast) {classes[kv.first] += kv.second;}
  std::map<std::string, double> maxima = st.maxima;
  for (const auto & kv : st.maximaFast) {
    auto it = maxima.find(kv.first);
    if (it == maxima.end() || kv.second > it->second || std::isnan(kv.second)) {maxima[kv.first] = kv.second;}
  }
  for (const auto & kv : classes) {
    if (!first) {o += ",";}
    first = false;
    o += fmt("\"%s\":%" PRIu64, jsonEscape(kv.first).c_str(), kv.second);
  }
  o += "},\"maxima\":{";
  first = true;
  for (const auto & kv : maxima) {
    if (!first) {o += ",";}
    first = false;
    o += "\"" + jsonEscape(kv.first) + "\":" + jsonNumber(kv.second);
  }
  o += "},\"known\":{";
  first = true;
  for (const auto & kv : st.known) {
    if (!first) {o += ",";}
    first = false;
    o += fmt("\"%s\":%" PRIu64, jsonEscape(kv.first).c_str(), kv.second);
  }
  o += "},\"known_witness\":{";
  first = true;
  for (const auto & kv : st.knownWitness) {
    if (!first) {o += ",";}
    first = false;
    o += "\"" + jsonEscape(kv.first) + "\":" + kv.second;
  }
  o += "},\"samples\":[";
  first = true;
  for (const auto & s : st.samples) {
    if (!first) {o += ",";}
    first = false;
    o += "{\"class\":\"" + jsonEscape(s.cls) + "\",\"case\":" + s.json + "}";
  }
  o += "]}";
  writeFile(outdir + "/stats.json", o);
  // hashes of distinct non-trivial cases, for the cross-worker union
  FILE * f = fopen((outdir + "/hashes.bin").c_str(), "wb");
  if (f) {
    std::vector<uint64_t> v(st.hashes.begin(), st.hashes.end());
    if (!v.empty()) {fwrite(v.data(), 8, v.size(), f);}
    fclose(f);
  }
}

// runs the body once on the prepared Src; returns "" on pass, the oracle's message on failure.
// Bookkeeping (classes, hashes, samples, known findings) is updated for executions that count.
struct Runner
{
  const Sub & sub;
  Stats & st;
  Src src;
  std::string outdir;
  unsigned char * commitBuf = nullptr;
  static constexpr size_t kCommitCap = 4u << 20;
  uint64_t enumShard = 0, enumShards = 1, enumLeaf = 0;

  Runner(const Sub & s, Stats & stats, const std::string & out)
  : sub(s), st(stats), outdir(out)
  {
    if (!outdir.empty()) {
      int fd = open((outdir + "/current.bin").c_str(), O_CREAT | O_RDWR | O_TRUNC, 0644);
      if (fd >= 0 && ftruncate(fd, kCommitCap) == 0) {
        void * p = mmap(nullptr, kCommitCap, PROT_READ | PROT_WRITE, MAP_SHARED, fd, 0);
        if (p != MAP_FAILED) {commitBuf = static_cast<unsigned char *>(p);}
      }
      if (fd >= 0) {close(fd);}
    }
  }

  enum Outcome { PASS, FAIL, SKIPPED, NOTMINE };
  std::string message;
  std::vector<std::pair<std::string, std::string>> lastKnown;
  // shrinking budget: rapidcheck has none, and an expensive body (O(n^2) oracles, concurrent workloads) can shrink for
  // hours. Once the budget is spent every further candidate is declared passing without being run, which ends the
  // shrinking at the smallest failing case found so far (the one in last_failure.json).
  double firstFailAt = -1;
  long execAfterFail = 0;
  double shrinkBudgetS = getenv("VF_SHRINK_BUDGET_S") ? atof(getenv("VF_SHRINK_BUDGET_S")) : 120.0;
  long shrinkBudgetN = 3000;
  static double nowS()
  {
    struct timespec ts;
    clock_gettime(CLOCK_MONOTONIC, &ts);
    return ts.tv_sec + 1e-9 * ts.tv_nsec;
  }

  Outcome once()
  {
    if (firstFailAt >= 0 && src.mode == Src::RC) {
      if (++execAfterFail > shrinkBudgetN || nowS() - firstFailAt > shrinkBudgetS) {return PASS;}
    }
    src.beginCase();
    Ctx c(src, st);
    c.commitBuf = commitBuf;
    c.commitCap = kCommitCap;
    c.subName = sub.name;
    c.enumShard = enumShard; c.enumShards = enumShards; c.enumLeaf = enumLeaf;
    Outcome out = PASS;
    message.clear();
    try {
      sub.body(c);
    } catch (const Failure & f) {
      out = FAIL;
      message = f.msg;
    } catch (const Skip &) {
      out = SKIPPED;
    } catch (const EnumNotMine &) {
      return NOTMINE;
    } catch (const ReplayMismatch & m) {
      fprintf(stderr, "HARNESS-ERROR replay-mismatch: %s\n", m.msg.c_str());
      exit(3);
    } catch (const std::exception & e) {
      out = FAIL;
      message = std::string("exception escaped the library: ") + e.what();
    }
    lastKnown = c.knownHits;
    st.evaluations++;
    if (out == SKIPPED) {st.skipped++; st.classes["skipped(outside-quantifier)"]++; return out;}
    if (out == FAIL) {
      if (firstFailAt < 0) {firstFailAt = nowS();}
      if (!outdir.empty()) {writeFile(outdir + "/last_failure.json", c.caseJson(message) + "\n");}
      return out;
    }
    for (const char * l : c.labels) {st.classesFast[l]++;}
    for (const auto & k : c.knownHits) {
      st.known[k.first]++;
      if (!st.knownWitness.count(k.first)) {st.knownWitness[k.first] = c.caseJson(k.second);}
    }
    if (c.nontriv) {
      st.nontrivial++;
      if (st.hashes.size() < st.hashCap) {st.hashes.insert(hashTape(src.tape));} else {st.hashCapped = true;}
      // samples: up to 2 per class (first label), plus up to 6 unlabeled
      std::string cls = c.labels.empty() ? "(unlabelled)" : c.labels.front();
      bool took = false;
      if (st.samples.size() < 60) {
        for (const char * l : c.labels) {
          int & n = st.samplesFast[l];
          if (n < 2 && st.samples.size() < 60) {
            if (!took) {st.samples.push_back(Sample{l, c.caseJson()}); took = true;}
            n++;
          }
        }
      }
      if (c.labels.empty()) {
        int & n = st.samplesPerClass[cls];
        if (n < 4 && st.samples.size() < 60) {st.samples.push_back(Sample{cls, c.caseJson()}); n++;}
      }
    }
    return out;
  }
};

inline int usage()
{
  fprintf(stderr, "usage: list | run <sub> <outdir> <cases> <seed> <maxsize> | enum <sub> <outdir> <shard> <nshards> | replay <sub|-> <file>\n");
  return 3;
}

inline const Sub * findSub(const std::vector<Sub> & subs, const std::string & n)
{
  for (const auto & s : subs) {if (n == s.name) {return &s;}}
  return nullptr;
}

inline int main(int argc, char ** argv, const std::vector<Sub> & subs)
{
  if (argc < 2) {return usage();}
  std::string cmd = argv[1];
  if (cmd == "list") {
    printf("[");
    for (size_t k = 0; k < subs.size(); ++k) {
      printf("%s{\"name\":\"%s\",\"rule\":\"%s\"}", k ? "," : "", subs[k].name, jsonEscape(subs[k].rule).c_str());
    }
    printf("]\n");
    return 0;
  }
  if (cmd == "decode") {
    // current.bin -> JSON case on stdout (used by the driver after a crash / hang)
    if (argc < 3) {return usage();}
    std::string bin;
    if (!readFile(argv[2], bin) || bin.size() < 72) {return 3;}
    uint32_t valid, n;
    memcpy(&valid, bin.data(), 4);
    memcpy(&n, bin.data() + 4, 4);
    if (!valid) {fprintf(stderr, "no committed case\n"); return 4;}
    std::string subName(bin.data() + 8, strnlen(bin.data() + 8, 64));
    Tape t;
    const size_t rec = kCaseNameBytes + 24;
    for (uint32_t k = 0; k < n && 72 + (k + 1) * rec <= bin.size(); ++k) {
      const char * p = bin.data() + 72 + k * rec;
      Entry e;
      e.name = intern(std::string(p, strnlen(p, kCaseNameBytes)));
      e.kind = p[kCaseNameBytes];
      memcpy(&e.i, p + kCaseNameBytes + 8, 8);
      memcpy(&e.d, p + kCaseNameBytes + 16, 8);
      t.push_back(e);
    }
    printf("{\"sub\":\"%s\",\"tape\":%s}\n", jsonEscape(subName).c_str(), tapeJson(t).c_str());
    return 0;
  }
  if (cmd == "replay") {
    if (argc < 4) {return usage();}
    std::string text;
    if (!readFile(argv[3], text)) {fprintf(stderr, "cannot read %s\n", argv[3]); return 3;}
    // current.json may carry stale bytes after the first newline
    size_t nl = text.find('\n');
    if (nl != std::string::npos) {text.resize(nl);}
    JParser jp(text);
    JVal root = jp.parse();
    Tape tape;
    std::string subName;
    if (!jp.ok || !tapeFromJson(root, tape, subName)) {fprintf(stderr, "cannot parse %s\n", argv[3]); return 3;}
    if (std::string(argv[2]) != "-") {subName = argv[2];}
    const Sub * sub = findSub(subs, subName);
    if (!sub) {fprintf(stderr, "unknown sub '%s'\n", subName.c_str()); return 3;}
    Stats st;
    Runner r(*sub, st, "");
    r.src.mode = Src::REPLAY;
    r.src.tape = tape;
    Runner::Outcome o = r.once();
    if (o == Runner::FAIL) {
      printf("FAIL sub=%s: %s\n", sub->name, r.message.c_str());
      return 1;
    }
    if (o == Runner::SKIPPED) {printf("SKIPPED (outside quantifier)\n"); return 0;}
    if (!r.lastKnown.empty()) {
      for (const auto & k : r.lastKnown) {printf("KNOWN %s: %s\n", k.first.c_str(), k.second.c_str());}
      return 5;
    }
    printf("PASS sub=%s\n", sub->name);
    return 0;
  }
  if (cmd == "enum") {
    if (argc < 6) {return usage();}
    const Sub * sub = findSub(subs, argv[2]);
    if (!sub) {fprintf(stderr, "unknown sub '%s'\n", argv[2]); return 3;}
    std::string outdir = argv[3];
    Stats st;
    st.hashCap = 0;  // distinct by construction: every leaf of the odometer is a different case
    Runner r(*sub, st, outdir);
    r.enumShard = strtoull(argv[4], nullptr, 10);
    r.enumShards = strtoull(argv[5], nullptr, 10);
    // sharding: a leaf belongs to the shard selected by a hash of its first `shardDepth` digits, so a
    // shard abandons foreign subtrees at that depth instead of enumerating their leaves
    const size_t shardDepth = argc > 6 ? strtoull(argv[6], nullptr, 10) : 3;
    const uint64_t myShard = r.enumShard, nShards = r.enumShards;
    r.enumShards = 1;  // commit() must not apply the leaf-index rule as well
    r.src.mode = Src::ENUM;
    struct Digit {int64_t cur, lo, hi;};
    std::vector<Digit> stack;
    size_t depth = 0;
    r.src.raw = [&](int64_t lo, int64_t hi) -> int64_t {
        int64_t v;
        if (depth < stack.size()) {
          if (stack[depth].lo != lo || stack[depth].hi != hi) {
            fprintf(stderr, "HARNESS-ERROR enum: non-deterministic draw domain\n");
            exit(3);
          }
          v = stack[depth++].cur;
        } else {
          stack.push_back(Digit{lo, lo, hi});
          depth++;
          v = lo;
        }
        if (depth == shardDepth && nShards > 1) {
          uint64_t h = 1469598103934665603ULL;
          for (size_t k = 0; k < shardDepth; ++k) {h ^= static_cast<uint64_t>(stack[k].cur) + 0x9e37; h *= 1099511628211ULL; h ^= h >> 29;}
          if (h % nShards != myShard) {throw EnumNotMine{};}
        }
        return v;
      };
    uint64_t mine = 0;
    int rc = 0;
    while (true) {
      depth = 0;
      Runner::Outcome o = r.once();
      bool shallow = depth < shardDepth;  // leaf above the sharding depth: owned by shard 0
      if (o != Runner::NOTMINE && !(shallow && nShards > 1 && myShard != 0)) {mine++;}
      if (o == Runner::FAIL) {rc = 1; break;}
      stack.resize(depth);
      while (!stack.empty() && stack.back().cur >= stack.back().hi) {stack.pop_back();}
      if (stack.empty()) {break;}
      stack.back().cur++;
    }
    st.classes["enum-leaves-this-shard"] = mine;
    st.classes["enum-complete"] = (rc == 0) ? 1 : 0;
    writeStats(outdir, st, *sub, "enum");
    if (rc) {printf("FAIL sub=%s: %s\n", sub->name, r.message.c_str());}
    return rc;
  }
#ifndef VF_NO_RAPIDCHECK
  if (cmd == "run") {
    if (argc < 7) {return usage();}
    const Sub * sub = findSub(subs, argv[2]);
    if (!sub) {fprintf(stderr, "unknown sub '%s'\n", argv[2]); return 3;}
    std::string outdir = argv[3];
    rc::detail::TestParams params;
    params.maxSuccess = atoi(argv[4]);
    params.seed = strtoull(argv[5], nullptr, 10);
    params.maxSize = atoi(argv[6]);
    params.maxDiscardRatio = 10;
    // concurrent workloads: a failing case is a schedule-dependent observation; re-running dozens of shrink candidates
    // costs minutes each and proves nothing, so the driver switches shrinking off for them
    params.disableShrinking = getenv("VF_NO_SHRINK") != nullptr;
    Stats st;
    Runner r(*sub, st, outdir);
    r.src.mode = Src::RC;
    const int maxSize = params.maxSize > 0 ? params.maxSize : 1;
    // one generator object for every draw: a 62-bit integer shrinking toward 0, reduced modulo the
    // requested range (so every draw shrinks toward its lower bound); size pinned to 100 because
    // rapidcheck's inRange narrows its range at small sizes.
    static const rc::Gen<int64_t> kRaw = rc::gen::resize(100, rc::gen::inRange<int64_t>(0, int64_t(1) << 62));
    r.src.raw = [](int64_t lo, int64_t hi) -> int64_t {
        const uint64_t range = static_cast<uint64_t>(hi - lo) + 1;
        const int64_t v = *kRaw;
        return lo + static_cast<int64_t>(static_cast<uint64_t>(v) % range);
      };
    rc::detail::TestMetadata md;
    md.id = sub->name;
    md.description = sub->name;
    auto result = rc::detail::checkTestable(
      [&]() {
        const int size = *rc::gen::withSize([](int s) {return rc::gen::just(s);});
        r.src.frac = std::min(1.0, static_cast<double>(size) / maxSize);
        Runner::Outcome o = r.once();
        if (o == Runner::FAIL) {RC_FAIL(r.message);}
      }, md, params);
    writeStats(outdir, st, *sub, "rc");
    if (result.template is<rc::detail::SuccessResult>()) {return 0;}
    if (result.template is<rc::detail::FailureResult>()) {
      std::string text;
      readFile(outdir + "/last_failure.json", text);
      printf("FAIL sub=%s (shrunk case in %s/last_failure.json)\n", sub->name, outdir.c_str());
      return 1;
    }
    rc::detail::printResultMessage(result, std::cerr);
    fprintf(stderr, "\nHARNESS-ERROR rapidcheck gave up or errored\n");
    return 3;
  }
#endif
  return usage();
}

}  // namespace vf

#ifdef VF_FUZZ
// libFuzzer entry: the same sub body, draws decoded from the input bytes (integers from the front,
// two bytes of entropy more than the range needs; exhausted input yields the lower bound).
extern const std::vector<vf::Sub> & vfSubs();
extern "C" int LLVMFuzzerTestOneInput(const uint8_t * data, size_t size)
{
  static const char * subName = getenv("VF_FUZZ_SUB");
  static const char * outDir = getenv("VF_FUZZ_OUT");
  static vf::Stats st;
  static const vf::Sub * sub = nullptr;
  static vf::Runner * runner = nullptr;
  if (!sub) {
    sub = vf::findSub(vfSubs(), subName ? subName : "");
    if (!sub) {fprintf(stderr, "VF_FUZZ_SUB not set/unknown\n"); abort();}
    st.hashCap = 2000000;
    runner = new vf::Runner(*sub, st, outDir ? outDir : "");
    runner->src.mode = vf::Src::FUZZ;
    atexit([] {if (runner && !runner->outdir.empty()) {vf::writeStats(runner->outdir, st, *sub, "fuzz");}});
  }
  size_t off = 0;
  runner->src.raw = [&](int64_t lo, int64_t hi) -> int64_t {
      uint64_t range = static_cast<uint64_t>(hi - lo) + 1;
      int nbytes = 1;
      while (nbytes < 8 && (range >> (8 * nbytes)) != 0) {nbytes++;}
      uint64_t v = 0;
      for (int k = 0; k < nbytes; ++k) {
        uint64_t b = (off < size) ? data[off++] : 0;
        v |= b << (8 * k);
      }
      return lo + static_cast<int64_t>(range ? v % range : v);
    };
  runner->src.frac = 1.0;
  vf::Runner::Outcome o = runner->once();
  if (o == vf::Runner::FAIL) {
    fprintf(stderr, "FAIL sub=%s: %s\n", sub->name, runner->message.c_str());
    if (!runner->outdir.empty()) {vf::writeStats(runner->outdir, st, *sub, "fuzz");}
    __builtin_trap();
  }
  return 0;
}
#define VF_HARNESS(subs) const std::vector<vf::Sub> & vfSubs() {return subs;}
#else
#define VF_HARNESS(subs) \
  int main(int argc, char ** argv) {return vf::main(argc, argv, subs);}
#endif
