// C15 - Scrolling grid keeps surviving cells and blanks entering cells after any scrolls
#include "vf_main.hpp"

#include <Eigen/Core>
#include <algorithm>
#include <cassert>
#include <climits>
#include <memory>
#include <string>
#include "romea_core_common/containers/grid/WrappableGrid.hpp"

namespace {

// Reference model: the window over the unbounded map, stored densely. translate(k): new(i) = old(i+k) when
// i+k is still inside the old window (the location stayed inside), else the empty value of this translation.
template<size_t DIM>
struct Model
{
  int n[3] = {1, 1, 1};
  std::vector<int> cells;
  int64_t acc[3] = {0, 0, 0};
  size_t lin(const int * i) const {return static_cast<size_t>(i[0] + n[0] * (i[1] + n[1] * i[2]));}
  void init(const int * nn)
  {
    for (size_t d = 0; d < 3; ++d) {n[d] = d < DIM ? nn[d] : 1;}
    cells.assign(static_cast<size_t>(n[0]) * n[1] * n[2], 0);
  }
  void translate(const int * k, int empty)
  {
    std::vector<int> nw(cells.size(), empty);
    int i[3];
    for (i[2] = 0; i[2] < n[2]; ++i[2]) {
      for (i[1] = 0; i[1] < n[1]; ++i[1]) {
        for (i[0] = 0; i[0] < n[0]; ++i[0]) {
          int j[3] = {i[0] + k[0], i[1] + k[1], i[2] + (DIM == 3 ? k[2] : 0)};
          bool in = true;
          for (size_t d = 0; d < 3; ++d) {in = in && j[d] >= 0 && j[d] < n[d];}
          if (in) {nw[lin(i)] = cells[lin(j)];}
        }
      }
    }
    cells.swap(nw);
    for (size_t d = 0; d < DIM; ++d) {acc[d] += k[d];}
  }
};

// The cell type is a template parameter of the grid: int cells, and cells that own memory (a string long enough
// to live on the heap), for which copying, moving and assigning are different operations.
template<class T> struct CellOf;
template<> struct CellOf<int>
{
  static int make(int v) {return v == INT_MIN ? int() : v;}   // INT_MIN stands for "the default empty value T()"
  static std::string show(int v) {return std::to_string(v);}
};
template<> struct CellOf<std::string>
{
  static std::string make(int v) {return v == INT_MIN ? std::string() : "cell-value-kept-on-the-heap:" + std::to_string(v);}
  static std::string show(const std::string & v) {return "\"" + v + "\"";}
};

// kind 0 translate(k, value), or translate(k) with the default empty value when value is INT_MIN ; 1 write(cell)=value ;
// 2 continue on a copy-constructed grid ; 3 on a copy-assigned one ; 4 setValue(value): every cell written at once
struct GridOp {int kind; int k[3]; int cell[3]; int value;};

template<size_t DIM, class T = int>
void runHistory(vf::Ctx & c, const int * n, const std::vector<GridOp> & ops, bool deep, uint64_t touchSeed = 0)
{
  vf::Rng touch(touchSeed);
  using Grid = romea::core::WrappableGrid<T, DIM>;
  using CT = CellOf<T>;
  using CellIndexes = typename Grid::CellIndexes;
  using Offset = typename Grid::CellIndexesOffset;
  CellIndexes nn;
  for (size_t d = 0; d < DIM; ++d) {nn[d] = static_cast<size_t>(n[d]);}
  std::unique_ptr<Grid> gridHolder(new Grid(nn));
  Model<DIM> m;
  m.init(n);
  // distinct initial values
  {
    int i[3];
    for (i[2] = 0; i[2] < m.n[2]; ++i[2]) {
      for (i[1] = 0; i[1] < m.n[1]; ++i[1]) {
        for (i[0] = 0; i[0] < m.n[0]; ++i[0]) {
          CellIndexes ci;
          for (size_t d = 0; d < DIM; ++d) {ci[d] = static_cast<size_t>(i[d]);}
          int v = 1000 + static_cast<int>(m.lin(i));
          (*gridHolder)(ci) = CT::make(v);
          m.cells[m.lin(i)] = v;
        }
      }
    }
  }
  int step = 0;
  for (const GridOp & op : ops) {
    Grid & grid = *gridHolder;
    if (op.kind == 2) {
      // a copy is the same window: continue on a copy-constructed grid, the original is destroyed
      std::unique_ptr<Grid> copy(new Grid(grid));
      gridHolder = std::move(copy);
    } else if (op.kind == 3) {
      // ... or on a grid of the same size that had a life of its own and takes the content by assignment
      std::unique_ptr<Grid> other(new Grid(nn));
      Offset one;
      for (size_t d = 0; d < DIM; ++d) {one[d] = 1;}
      other->translate(one, CT::make(777));
      *other = grid;
      gridHolder = std::move(other);
    } else if (op.kind == 0) {
      Offset off;
      for (size_t d = 0; d < DIM; ++d) {off[d] = op.k[d];}
      if (op.value == INT_MIN) {grid.translate(off);} else {grid.translate(off, CT::make(op.value));}
      m.translate(op.k, op.value);
    } else if (op.kind == 4) {
      grid.setValue(CT::make(op.value));
      std::fill(m.cells.begin(), m.cells.end(), op.value);
    } else {
      CellIndexes ci;
      for (size_t d = 0; d < DIM; ++d) {ci[d] = static_cast<size_t>(op.cell[d]);}
      grid(ci) = CT::make(op.value);
      m.cells[m.lin(op.cell)] = op.value;
    }
    // after every op: every cell and the reported offset
    Grid & gridNow = *gridHolder;
    const Grid & cg = gridNow;
    const romea::core::Grid<T, DIM> & asBase = gridNow;   // operator() is virtual: the base interface reads the same window
    for (size_t d = 0; d < DIM; ++d) {
      if (cg.getNumberOfCellsAlongAxes()[d] != nn[d]) {c.fail(vf::fmt("after op %d: getNumberOfCellsAlongAxes() changed along axis %zu", step, d));}
    }
    if (deep) {
      // the buffer holds the cells of the window, in whatever physical order
      std::vector<T> stored(cg.getBuffer().begin(), cg.getBuffer().end()), want;
      for (int v : m.cells) {want.push_back(CT::make(v));}
      std::sort(stored.begin(), stored.end());
      std::sort(want.begin(), want.end());
      if (!(stored == want)) {c.fail(vf::fmt("after op %d: getBuffer() does not hold the values of the window's cells", step));}
    }
    int i[3];
    for (i[2] = 0; i[2] < m.n[2]; ++i[2]) {
      for (i[1] = 0; i[1] < m.n[1]; ++i[1]) {
        for (i[0] = 0; i[0] < m.n[0]; ++i[0]) {
          CellIndexes ci;
          for (size_t d = 0; d < DIM; ++d) {ci[d] = static_cast<size_t>(i[d]);}
          const T & got = cg(ci);
          int want = m.cells[m.lin(i)];
          if (deep && !(asBase(ci) == got)) {c.fail(vf::fmt("after op %d: cell (%d,%d,%d) read through the Grid base interface differs", step, i[0], i[1], i[2]));}
          if (!(got == CT::make(want))) {
            c.fail(vf::fmt("after op %d (%s): cell (%d,%d,%d) of a %dx%dx%d grid reads %s, the window model says %s",
              step, op.kind == 0 ? "translate" : (op.kind == 1 ? "write" : (op.kind == 4 ? "setValue" : "copy")), i[0], i[1], i[2], m.n[0], m.n[1], m.n[2],
              CT::show(got).c_str(), CT::show(CT::make(want)).c_str()));
          }
        }
      }
    }
    if (deep) {
      // the cell looked at last before the next operation varies (the sweep above always ends in the last cell)
      CellIndexes ci;
      int t[3] = {0, 0, 0};
      for (size_t d = 0; d < DIM; ++d) {
        // biased to the first and last slab of each axis, where a translation starts blanking
        uint64_t r = touch.below(4);
        t[d] = r == 0 ? 0 : (r == 1 ? m.n[d] - 1 : static_cast<int>(touch.below(static_cast<uint64_t>(m.n[d]))));
        ci[d] = static_cast<size_t>(t[d]);
      }
      if (!(cg(ci) == CT::make(m.cells[m.lin(t)]))) {
        c.fail(vf::fmt("after op %d: cell (%d,%d,%d) read once more reads %s, the window model says %s", step, t[0], t[1], t[2],
          CT::show(cg(ci)).c_str(), CT::show(CT::make(m.cells[m.lin(t)])).c_str()));
      }
    }
    auto off = gridNow.getIndexOffsetAlongAxes();
    for (size_t d = 0; d < DIM; ++d) {
      int64_t want = ((m.acc[d] % m.n[d]) + m.n[d]) % m.n[d];
      if (static_cast<int64_t>(off[d]) != want) {
        c.fail(vf::fmt("after op %d: reported index offset along axis %zu is %zu, accumulated offset mod size is %ld",
          step, d, static_cast<size_t>(off[d]), static_cast<long>(want)));
      }
    }
    step++;
  }
}

void classify(vf::Ctx & c, size_t DIM, const int * n, const std::vector<GridOp> & ops)
{
  int ntr = 0;
  int64_t acc[3] = {0, 0, 0};
  bool second = false, negz = false, big = false, afterWrap = false, wrapped = false;
  for (const GridOp & op : ops) {
    if (op.kind != 0) {continue;}
    ntr++;
    bool nonzeroBefore = false;
    for (size_t d = 0; d < DIM; ++d) {nonzeroBefore = nonzeroBefore || (((acc[d] % n[d]) + n[d]) % n[d]) != 0;}
    if (ntr >= 2 && nonzeroBefore) {second = true;}
    if (wrapped) {afterWrap = true;}
    for (size_t d = 0; d < DIM; ++d) {
      if (std::abs(op.k[d]) >= n[d] && op.k[d] != 0) {big = true;}
      acc[d] += op.k[d];
      if (acc[d] >= n[d] || acc[d] < 0) {wrapped = true;}
    }
    if (DIM == 3 && op.k[2] < 0 && -op.k[2] < n[2]) {negz = true;}
  }
  if (second) {c.label("second-translation(non-zero offset before)");}
  if (negz) {c.label("negative-z-with-survivors");}
  if (big) {c.label("|offset|>=n");}
  if (afterWrap) {c.label("after-wrap");}
  c.nontrivial(second);
}

// ---- bounded-exhaustive: all sizes, all sequences of 1..maxLen translations, offsets in [-(n+1), n+1] ----
template<size_t DIM, int MAXN, int MAXLEN>
void enumerated(vf::Ctx & c)
{
  int n[3] = {1, 1, 1};
  n[0] = static_cast<int>(c.s.i("nx", 1, MAXN));
  n[1] = static_cast<int>(c.s.i("ny", 1, MAXN));
  if (DIM == 3) {n[2] = static_cast<int>(c.s.i("nz", 1, MAXN));}
  int L = static_cast<int>(c.s.i("len", 1, MAXLEN));
  std::vector<GridOp> ops;
  static const char * kx[3] = {"k0x", "k1x", "k2x"}, * ky[3] = {"k0y", "k1y", "k2y"}, * kz[3] = {"k0z", "k1z", "k2z"};
  for (int t = 0; t < L; ++t) {
    GridOp op{};
    op.kind = 0;
    op.k[0] = static_cast<int>(c.s.i(kx[t], -(n[0] + 1), n[0] + 1));
    op.k[1] = static_cast<int>(c.s.i(ky[t], -(n[1] + 1), n[1] + 1));
    if (DIM == 3) {op.k[2] = static_cast<int>(c.s.i(kz[t], -(n[2] + 1), n[2] + 1));}
    op.value = -(t + 1);  // a distinct empty value per translation
    ops.push_back(op);
  }
  classify(c, DIM, n, ops);
  c.commit();
  runHistory<DIM>(c, n, ops, false);   // the enumeration keeps to the window model; the random histories also look at the rest of the interface
}

// ---- random histories: grids up to 8 cells per axis, <= 50 ops, offsets up to twice the size, writes ----
template<size_t DIM, class T = int>
void randomHistory(vf::Ctx & c)
{
  int n[3] = {1, 1, 1};
  n[0] = static_cast<int>(c.s.i("nx", 1, 8));
  n[1] = static_cast<int>(c.s.i("ny", 1, 8));
  if (DIM == 3) {n[2] = static_cast<int>(c.s.i("nz", 1, 8));}
  int L = static_cast<int>(c.s.len("n_ops", 1, 50));
  std::vector<GridOp> ops;
  bool copied = false, usedDefault = false, filled = false;
  for (int t = 0; t < L; ++t) {
    GridOp op{};
    op.kind = static_cast<int>(c.s.pick("op", {9, 3, 1, 1, 1, 2}));
    const bool defaultEmpty = op.kind == 5;
    if (defaultEmpty) {op.kind = 0; usedDefault = true;}
    if (op.kind == 4) {
      op.value = static_cast<int>(c.s.i("value", -1000000, 1000000));
      filled = true;
    } else if (op.kind >= 2) {
      copied = true;
    } else if (op.kind == 0) {
      for (size_t d = 0; d < DIM; ++d) {
        size_t mag = c.s.pick("k_class", {2, 4, 1});  // zero, small, up to twice the size
        if (mag == 0) {op.k[d] = 0;} else if (mag == 1) {
          op.k[d] = static_cast<int>(c.s.i("k", -n[d], n[d]));
        } else {op.k[d] = static_cast<int>(c.s.i("k", -2 * n[d], 2 * n[d]));}
      }
      op.value = defaultEmpty ? INT_MIN : static_cast<int>(c.s.i("empty", -1000000, 1000000));
    } else {
      for (size_t d = 0; d < DIM; ++d) {op.cell[d] = static_cast<int>(c.s.i("cell", 0, n[d] - 1));}
      op.value = static_cast<int>(c.s.i("value", -1000000, 1000000));
    }
    ops.push_back(op);
  }
  classify(c, DIM, n, ops);
  bool hasWrite = false;
  for (const auto & op : ops) {hasWrite = hasWrite || op.kind == 1;}
  if (hasWrite) {c.label("writes-interleaved");}
  if (copied) {c.label("continued-on-a-copy-of-the-grid");}
  if (usedDefault) {c.label("translate-with-the-default-empty-value");}
  if (filled) {c.label("setValue(all cells)");}
  const uint64_t touchSeed = c.s.seed("last_read_seed");
  c.commit();
  runHistory<DIM, T>(c, n, ops, true, touchSeed);
}

const char * kEnumRule =
  "bounded-exhaustive odometer over (grid sizes) x (sequence length) x (per-axis offsets in [-(n+1), n+1]); initial cells "
  "distinct (1000+index), empty value of translation t is -(t+1); every cell and the reported offset compared with the "
  "window model after every translation. Non-trivial: a translation performed while the accumulated offset is non-zero "
  "modulo the size in some axis (i.e. not the first translation from the pristine state). Leaves are distinct by construction.";
const char * kRandRule =
  "grids with 1..8 cells per axis, 1..50 ops (translate with a given or the default empty value, write, setValue, continue on a copy), per-axis offsets 0 / within +-n / within +-2n, arbitrary "
  "empty and written values in +-1e6; the *_heap_cells variants run the same histories on a grid of std::string cells "
  "(values long enough to own heap memory). Non-trivial: same rule as the enumeration.";

const std::vector<vf::Sub> kSubs = {
  {"enum2d_len3", enumerated<2, 4, 3>, kEnumRule},
  {"enum3d_len2", enumerated<3, 3, 2>, kEnumRule},
  {"enum3d_len3", enumerated<3, 3, 3>, kEnumRule},
  {"random2d", randomHistory<2>, kRandRule},
  {"random3d", randomHistory<3>, kRandRule},
  {"random2d_heap_cells", randomHistory<2, std::string>, kRandRule},
  {"random3d_heap_cells", randomHistory<3, std::string>, kRandRule},
};

}  // namespace

VF_HARNESS(kSubs)
