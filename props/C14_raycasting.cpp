// C14 - Ray casting visits a connected, in-bounds chain of cells covering the segment; reused caster == fresh caster
#include "vf_main.hpp"

#include <Eigen/Core>
#include <algorithm>
#include <array>
#include <memory>
#include "romea_core_common/containers/grid/GridIndexMapping.hpp"
#include "romea_core_common/containers/grid/RayTracing.hpp"

namespace {

const double BOUND = 1e3;       // grid bounds lie in [-1e3,1e3]
const double MAX_AXIS = 2000;   // quantifier: up to 2000 cells per axis
typedef long double LD;

template<typename S>
double rnd(double v) {return static_cast<double>(static_cast<S>(v));}

template<typename S>
double nudge(double v, int ulps)
{
  S x = static_cast<S>(v);
  for (int k = 0; k < std::abs(ulps); ++k) {
    x = std::nextafter(x, ulps > 0 ? std::numeric_limits<S>::infinity() : -std::numeric_limits<S>::infinity());
  }
  return static_cast<double>(x);
}

double clampd(double v, double lo, double hi) {return v < lo ? lo : (v > hi ? hi : v);}

struct Axis
{
  double lo = 0, hi = 0;   // exactly representable in the scalar type, lo <= hi
  double fl = 0;           // floor(lo/res) (harness estimate, generation only)
  double nEst = 1;         // estimated number of cells (generation only)
};

const double kDecimalRes[] = {0.1, 1, 0.5, 0.25, 0.2, 0.05, 0.02, 0.01, 0.3, 0.125};
const int kNDecimalRes = sizeof(kDecimalRes) / sizeof(kDecimalRes[0]);

template<typename S>
double genRes(vf::Ctx & c)
{
  double res;
  size_t k = c.s.pick("res_kind", {3, 2, 3});
  if (k == 0) {
    res = kDecimalRes[c.s.i("res_dec", 0, kNDecimalRes - 1)];
  } else if (k == 1) {
    res = std::ldexp(1.0, static_cast<int>(c.s.i("res_pow2", -6, 0)));
  } else {
    res = c.s.rlog("res", 0.01, 1.0);
  }
  res = rnd<S>(res);
  if (res < 0.01) {res = nudge<S>(res, 1);}
  if (res > 1.0) {res = 1.0;}
  return res;
}

template<typename S>
double latticeValue(double k, bool halfStep, double res)
{
  return rnd<S>((k + (halfStep ? 0.5 : 0.0)) * res);
}

// one axis of a general interval with at most `cap` cells
template<typename S>
Axis genAxis(vf::Ctx & c, double res, double cap)
{
  Axis a;
  const double wmax = (cap > 4) ? std::min(2 * BOUND, (cap - 4) * res) : 0.0;
  size_t kind = c.s.pick("b_kind", {4, 2, 2, 1});   // generic / multiples / half-multiples / zero width
  const double kmin = std::ceil(-BOUND / res) + 1, kmax = std::floor(BOUND / res) - 1;
  if (wmax <= 0) {kind = 3;}
  switch (kind) {
    case 0: {
        double w = c.s.r("b_w", 0.0, wmax);
        // half of the grids sit around the origin (sharp tolerance), the others anywhere in [-1e3,1e3]
        bool centred = c.s.flag("b_centred");
        double lo = centred ? c.s.r("b_lo", std::max(-BOUND, -w), 0.0) : c.s.r("b_lo", -BOUND, BOUND - w);
        a.lo = rnd<S>(lo);
        a.hi = rnd<S>(lo + w);
        break;
      }
    case 1: case 2: {
        int64_t wk = c.s.i("b_wk", 0, static_cast<int64_t>(std::min(std::floor(wmax / res), kmax - kmin)));
        bool centred = c.s.flag("b_centred");
        int64_t k0 = centred ?
          c.s.i("b_k", std::max<int64_t>(static_cast<int64_t>(kmin), -wk), std::min<int64_t>(0, static_cast<int64_t>(kmax) - wk)) :
          c.s.i("b_k", static_cast<int64_t>(kmin), static_cast<int64_t>(kmax) - wk);
        a.lo = latticeValue<S>(static_cast<double>(k0), kind == 2, res);
        a.hi = latticeValue<S>(static_cast<double>(k0 + wk), kind == 2, res);
        break;
      }
    default: {
        a.lo = rnd<S>(c.s.r("b_lo", -BOUND, BOUND));
        a.hi = a.lo;
      }
  }
  a.lo = clampd(a.lo, -BOUND, BOUND);
  a.hi = clampd(a.hi, -BOUND, BOUND);
  if (a.hi < a.lo) {a.hi = a.lo;}
  return a;
}

void finishAxis(Axis & a, double res)
{
  a.fl = std::floor(a.lo / res);
  a.nEst = std::ceil(a.hi / res) - a.fl + 1;
  if (a.nEst < 1) {a.nEst = 1;}
}

// one coordinate inside [lo,hi]: 0 uniform, 1 lo, 2 hi, 3 cell lattice (border/centre) +- ulps, 4 next to a bound
template<typename S>
double genCoord(vf::Ctx & c, const Axis & a, double res, size_t kind)
{
  double v;
  switch (kind) {
    case 0: v = rnd<S>(c.s.uni("p_u", a.lo, a.hi)); break;
    case 1: v = a.lo; break;
    case 2: v = a.hi; break;
    case 3: {
        int64_t k2 = c.s.i("p_k2", 0, static_cast<int64_t>(2 * a.nEst));
        int ulps = static_cast<int>(c.s.i("p_ulp", -2, 2));
        v = nudge<S>(rnd<S>(res * (a.fl - 0.5 + 0.5 * static_cast<double>(k2))), ulps);
        break;
      }
    default: {
        bool up = c.s.flag("p_up");
        int j = static_cast<int>(c.s.i("p_j", 0, 4));
        v = up ? nudge<S>(a.hi, -j) : nudge<S>(a.lo, j);
      }
  }
  return clampd(v, a.lo, a.hi);
}

template<size_t D>
struct Ray
{
  std::array<double, D> o, e;
  int kind = 0;
};

template<typename S, size_t D>
std::array<double, D> genPoint(vf::Ctx & c, const std::array<Axis, D> & ax, double res)
{
  std::array<double, D> p;
  size_t pk = c.s.pick("pt_kind", {4, 2, 1, 1});   // mixed per axis / all lattice (corners, centres) / all uniform / extent corner
  for (size_t d = 0; d < D; ++d) {
    size_t ck;
    switch (pk) {
      case 0: ck = c.s.pick("p_ck", {4, 1, 1, 2, 1}); break;
      case 1: ck = 3; break;
      case 2: ck = 0; break;
      default: ck = c.s.flag("p_hi") ? 2 : 1;
    }
    p[d] = genCoord<S>(c, ax[d], res, ck);
  }
  return p;
}

enum RayKind { GENERIC = 0, ALIGNED, DIAGONAL, COINCIDENT, NEAR_ALIGNED, SHORT };

// origin given (fixedOrigin) or generated; end point by ray kind
template<typename S, size_t D>
Ray<D> genRay(vf::Ctx & c, const std::array<Axis, D> & ax, double res, const std::array<double, D> * fixedOrigin)
{
  Ray<D> r;
  r.kind = static_cast<int>(c.s.pick("ray_kind", {5, 3, 3, 1, 2, 3}));
#ifdef C14_EXPERIMENT_NO_NEAR_ALIGNED   // experiment switch (never defined by the driver)
  if (r.kind == NEAR_ALIGNED) {r.kind = GENERIC;}
#endif
  if (fixedOrigin) {r.o = *fixedOrigin;} else {r.o = genPoint<S, D>(c, ax, res);}
  switch (r.kind) {
    case GENERIC:
      r.e = genPoint<S, D>(c, ax, res);
      break;
    case ALIGNED: {
        // one or more axes share the coordinate exactly (direction component exactly 0)
        r.e = genPoint<S, D>(c, ax, res);
        size_t keep = static_cast<size_t>(c.s.i("al_axis", 0, D - 1));   // the axis along which the ray runs (if D-1 frozen)
        bool freezeAllOthers = c.s.flag("al_all_others");
        size_t one = static_cast<size_t>(c.s.i("al_frozen", 0, D - 1));
        for (size_t d = 0; d < D; ++d) {
          if (freezeAllOthers ? (d != keep) : (d == one)) {r.e[d] = r.o[d];}
        }
        break;
      }
    case DIAGONAL: {
        // e = o + k*res*(+-1,...,+-1), inside the extent
        double kfit = 1e9;
        std::array<int, D> sg;
        for (size_t d = 0; d < D; ++d) {
          sg[d] = c.s.flag("dg_neg") ? -1 : 1;
          double room = (sg[d] > 0) ? (ax[d].hi - r.o[d]) : (r.o[d] - ax[d].lo);
          kfit = std::min(kfit, std::floor(room / res));
        }
        if (kfit < 0) {kfit = 0;}
        int64_t k = c.s.i("dg_k", 0, static_cast<int64_t>(kfit));
        for (size_t d = 0; d < D; ++d) {
          r.e[d] = clampd(rnd<S>(r.o[d] + sg[d] * static_cast<double>(k) * res), ax[d].lo, ax[d].hi);
        }
        break;
      }
    case COINCIDENT:
      r.e = r.o;
      break;
    case NEAR_ALIGNED: {
        // one direction component of a few ulps, straddling a cell border
        r.e = genPoint<S, D>(c, ax, res);
        size_t a = static_cast<size_t>(c.s.i("na_axis", 0, D - 1));
        if (!fixedOrigin) {
          int64_t k2 = 2 * c.s.i("na_k", 0, static_cast<int64_t>(ax[a].nEst));
          int ulps = static_cast<int>(c.s.i("na_o_ulp", -2, 2));
          r.o[a] = clampd(nudge<S>(rnd<S>(res * (ax[a].fl - 0.5 + 0.5 * static_cast<double>(k2))), ulps), ax[a].lo, ax[a].hi);
        }
        int j = static_cast<int>(c.s.i("na_j", -4, 4));
        r.e[a] = clampd(nudge<S>(r.o[a], j), ax[a].lo, ax[a].hi);
        break;
      }
    default: {
        for (size_t d = 0; d < D; ++d) {
          double v = rnd<S>(r.o[d] + c.s.uni("sh_d", -3.0, 3.0) * res);
          r.e[d] = clampd(v, ax[d].lo, ax[d].hi);
        }
      }
  }
  return r;
}

struct Step
{
  int pre = 0;        // 0 nothing, 1 next() steps, 2 setEndPoint(x)+next() steps, 3 setOriginPoint(y)+setEndPoint(x)+next() steps
  int nNext = 0;
  int form = 0;       // 0 cast(o,e), 1 setOriginPoint(o)+cast(e), 2 cast(e) with the origin the caster already holds
  bool aliasOrigin = false;   // form 0 with the origin passed as a reference to the caster's own end point (polyline chaining)
};

template<typename S, size_t D>
void body(vf::Ctx & c)
{
  using Map = romea::core::GridIndexMapping<S, D>;
  using Caster = romea::core::RayCasting<S, D>;
  using Pt = typename Map::PointType;
  using Idx = typename Map::CellIndexes;
  using Chain = romea::core::VectorOfEigenVector<Idx>;
  const double eps = vf::epsOf<S>();

  // ------------------------------------------------------------------ generation
  const double res = genRes<S>(c);
  const size_t ctor = c.s.pick("ctor", {1, 2});   // 0 maximal range, 1 interval
  const size_t sizeClass = c.s.pick("grid_size", {3, 3, 2});
  const double cap = (sizeClass == 0) ? 12 : (sizeClass == 1 ? 150 : MAX_AXIS);
  std::array<Axis, D> ax;
  double R = 0;
  if (ctor == 0) {
    const double rmax = std::min(BOUND, 0.5 * (cap - 4) * res);
    size_t rk = c.s.pick("R_kind", {2, 2, 1});
    if (rk == 0) {R = rnd<S>(c.s.r("R", 0.0, rmax));} else {
      int64_t k = c.s.i("R_k", 0, static_cast<int64_t>(std::floor(rmax / res)) - 1);
      R = latticeValue<S>(static_cast<double>(k), rk == 2, res);
    }
    R = clampd(R, 0.0, BOUND);
    for (size_t d = 0; d < D; ++d) {ax[d].lo = -R; ax[d].hi = R;}
  } else {
    for (size_t d = 0; d < D; ++d) {ax[d] = genAxis<S>(c, res, cap);}
  }
  double gridScale = res;
  for (size_t d = 0; d < D; ++d) {
    finishAxis(ax[d], res);
    if (ax[d].nEst > MAX_AXIS) {c.skip();}   // outside the quantifier (never expected)
    gridScale = std::max(gridScale, std::max(std::fabs(ax[d].lo), std::fabs(ax[d].hi)));
  }

  const int nCasts = static_cast<int>(c.s.len("n_casts", 1, 6));
  std::vector<Step> steps(nCasts);
  std::vector<Ray<D>> rays(nCasts);
  std::vector<std::array<double, D>> preOrigin(nCasts), preEnd(nCasts);
  bool haveOrigin = false, anyAlias = false;
  std::array<double, D> curOrigin{};
  for (int k = 0; k < nCasts; ++k) {
    Step & st = steps[k];
    st.pre = static_cast<int>(c.s.pick("pre", {3, 1, 1, 1}));
    if (st.pre != 0) {st.nNext = static_cast<int>(c.s.i("n_next", 1, 6));}
    if (st.pre >= 2) {preEnd[k] = genPoint<S, D>(c, ax, res);}
    if (st.pre == 3) {preOrigin[k] = genPoint<S, D>(c, ax, res); curOrigin = preOrigin[k]; haveOrigin = true;}
    st.form = static_cast<int>(c.s.pick("form", {2, 2, 2, 1}));   // 3: setOriginPoint(o); setEndPoint(e); cast()
    if (st.form == 2 && !haveOrigin) {st.form = 1;}
    // history couplings: reuse the previous origin / previous end point
    const std::array<double, D> * fixed = nullptr;
    std::array<double, D> tmp;
    if (st.form == 2) {fixed = &curOrigin;} else if (k > 0) {
      size_t reuse = c.s.pick("o_reuse", {4, 1, 1});
      if (reuse == 1) {tmp = rays[k - 1].o; fixed = &tmp;} else if (reuse == 2) {
        tmp = rays[k - 1].e; fixed = &tmp;
        // the caster still holds that end point unless a leftover setEndPoint() replaced it
        if (st.form == 0 && st.pre <= 1) {st.aliasOrigin = c.s.flag("origin_is_reference_to_own_end_point"); anyAlias = anyAlias || st.aliasOrigin;}
      }
    }
    rays[k] = genRay<S, D>(c, ax, res, fixed);
    if (k > 0 && c.s.flag("e_reuse", 1, 5)) {rays[k].e = rays[k - 1].e;}
    curOrigin = rays[k].o;
    haveOrigin = true;
  }
  c.labelIf(nCasts >= 2, "reused-caster");
  c.labelIf(anyAlias, "cast(own getEndPoint() reference, e)");
  const bool gridAssignedLater = c.s.flag("grid_configured_after_the_caster_was_bound", 1, 4);
  c.labelIf(gridAssignedLater, "grid-configured-after-binding");
  // how the caster gets its grid: constructor / default constructed then setGridIndexMapping / a caster that worked on
  // another grid first and is then re-bound (every cast below specifies its origin after the binding)
  const size_t binding = c.s.pick("binding", {3, 1, 1});
  c.labelIf(binding == 1, "default-constructed-then-bound");
  c.labelIf(binding == 2, "re-bound-after-work-on-another-grid");
  c.label(ctor == 0 ? "ctor-maximal-range" : "ctor-interval");
  c.commit();

  // ------------------------------------------------------------------ library under test
  std::unique_ptr<Map> mp;
  if (ctor == 0) {
    mp.reset(new Map(static_cast<S>(R), static_cast<S>(res)));
  } else {
    Pt lo, hi;
    for (size_t d = 0; d < D; ++d) {lo[d] = static_cast<S>(ax[d].lo); hi[d] = static_cast<S>(ax[d].hi);}
    mp.reset(new Map(romea::core::Interval<S, D>(lo, hi), static_cast<S>(res)));
  }
  // the caster under test is bound to the grid object; optionally the grid object only receives its final
  // configuration afterwards (the caster keeps a pointer to it, so it must see the new configuration)
  std::unique_ptr<Map> bound;
  if (gridAssignedLater) {bound.reset(new Map(static_cast<S>(3), static_cast<S>(1)));} else {bound.reset(new Map(*mp));}
  Map & m = *bound;
  std::unique_ptr<romea::core::RayCasting<S, D>> casterHolder;
  Map otherGrid(static_cast<S>(7), static_cast<S>(0.5));
  if (binding == 0) {
    casterHolder.reset(new romea::core::RayCasting<S, D>(&m));
  } else if (binding == 1) {
    casterHolder.reset(new romea::core::RayCasting<S, D>());
    casterHolder->setGridIndexMapping(&m);
  } else {
    casterHolder.reset(new romea::core::RayCasting<S, D>(&otherGrid));
    Pt a, b;
    for (size_t d = 0; d < D; ++d) {a[d] = static_cast<S>(-1.3 + 0.4 * d); b[d] = static_cast<S>(5.1 - 2.7 * d);}
    Chain elsewhere = casterHolder->cast(a, b);
    c.harnessCheck(elsewhere.size() >= 3, "the cast on the other grid is trivial");
    casterHolder->setGridIndexMapping(&m);
  }
  if (gridAssignedLater) {m = *mp;}
  if (binding == 2) {
    // a re-bound caster is given an origin of the new grid before anything else (its stored cell indexes belong to the
    // other grid); everything else it remembers from the other grid must be without influence
    Pt o0;
    for (size_t d = 0; d < D; ++d) {o0[d] = static_cast<S>(ax[d].lo);}
    casterHolder->setOriginPoint(o0);
  }
  const Idx n = m.getNumberOfCellsAlongAxes();
  auto toPt = [](const std::array<double, D> & a) {
      Pt p;
      for (size_t d = 0; d < D; ++d) {p[d] = static_cast<S>(a[d]);}
      return p;
    };
  auto idxStr = [](const Idx & i) {
      std::string s = "(";
      for (size_t d = 0; d < D; ++d) {s += vf::fmt("%s%zu", d ? "," : "", static_cast<size_t>(i[d]));}
      return s + ")";
    };
  auto ptStr = [](const std::array<double, D> & a) {
      std::string s = "(";
      for (size_t d = 0; d < D; ++d) {s += vf::fmt("%s%.17g", d ? "," : "", a[d]);}
      return s + ")";
    };

  // the oracle of one cast: a pure function of (grid, o, e, chain)
  auto checkChain = [&](const Ray<D> & r, const Chain & ray, const std::string & w) {
      const std::string ctx = vf::fmt("%s o=%s e=%s res=%.17g", w.c_str(), ptStr(r.o).c_str(), ptStr(r.e).c_str(), res);
      const Idx io = m.computeCellIndexes(toPt(r.o)), ie = m.computeCellIndexes(toPt(r.e));
      size_t l1 = 0;
      double range2 = 0;
      bool axisAligned = false, allEqual = true;
      for (size_t d = 0; d < D; ++d) {
        c.check(io[d] < n[d] && ie[d] < n[d], ctx + ": origin/end point of the extent mapped outside the grid");
        l1 += (io[d] > ie[d]) ? io[d] - ie[d] : ie[d] - io[d];
        range2 += (r.e[d] - r.o[d]) * (r.e[d] - r.o[d]);
        if (r.e[d] == r.o[d]) {axisAligned = true;} else {allEqual = false;}
      }
      c.check(ray.size() == l1 + 1,
        vf::fmt("%s: chain has %zu cells, L1 distance between origin cell %s and end cell %s is %zu", ctx.c_str(), ray.size(),
        idxStr(io).c_str(), idxStr(ie).c_str(), l1));
      const double nsteps = static_cast<double>(l1);
      const double scale = std::max(gridScale, std::sqrt(range2));
      const double tol = eps * scale * (8 + nsteps / 8);
      c.check(ray.front() == io, vf::fmt("%s: chain starts in %s, the origin's cell is %s", ctx.c_str(), idxStr(ray.front()).c_str(), idxStr(io).c_str()));

      // connectivity and bounds
      for (size_t k = 0; k < ray.size(); ++k) {
        for (size_t d = 0; d < D; ++d) {
          c.check(ray[k][d] < n[d],
            vf::fmt("%s: cell #%zu %s leaves the grid (%zu cells on axis %zu)", ctx.c_str(), k, idxStr(ray[k]).c_str(), static_cast<size_t>(n[d]), d));
        }
        if (k > 0) {
          size_t diff = 0;
          for (size_t d = 0; d < D; ++d) {diff += (ray[k][d] > ray[k - 1][d]) ? ray[k][d] - ray[k - 1][d] : ray[k - 1][d] - ray[k][d];}
          c.check(diff == 1,
            vf::fmt("%s: cells #%zu %s and #%zu %s are not face neighbours", ctx.c_str(), k - 1, idxStr(ray[k - 1]).c_str(), k, idxStr(ray[k]).c_str()));
        }
      }
      // every visited cell is crossed by the segment (closed cell inflated by tol; slab test in long double)
      auto crossed = [&](const Idx & cell, LD infl) {
          LD tmin = 0, tmax = 1;
          for (size_t d = 0; d < D; ++d) {
            const LD ctr = static_cast<LD>(m.getCellCentersPositionAlong(d)[cell[d]]);
            const LD blo = ctr - static_cast<LD>(res) / 2 - infl, bhi = ctr + static_cast<LD>(res) / 2 + infl;
            const LD o = r.o[d], dir = static_cast<LD>(r.e[d]) - static_cast<LD>(r.o[d]);
            if (dir == 0) {
              if (o < blo || o > bhi) {return false;}
            } else {
              LD t0 = (blo - o) / dir, t1 = (bhi - o) / dir;
              if (t0 > t1) {std::swap(t0, t1);}
              tmin = std::max(tmin, t0);
              tmax = std::min(tmax, t1);
              if (tmin > tmax) {return false;}
            }
          }
          return true;
        };
      for (size_t k = 0; k < ray.size(); ++k) {
        if (crossed(ray[k], 0)) {continue;}
        double need = 1.0;
        for (double f : {1.0 / 64, 1.0 / 16, 0.125, 0.25, 0.5}) {
          if (crossed(ray[k], static_cast<LD>(tol * f))) {need = f; break;}
        }
        if (need == 1.0 && !crossed(ray[k], static_cast<LD>(tol))) {
          c.fail(vf::fmt("%s: cell #%zu %s of %zu is not crossed by the segment (closed cell inflated by tol=%.3g = %.3g cell)",
            ctx.c_str(), k, idxStr(ray[k]).c_str(), ray.size(), tol, tol / res));
        }
        c.maxStat("segment-miss/tol (bracketed)", need);
      }
      // first cell contains the origin, last cell contains the end point (closed, inflated)
      double farFromBorder = 1e300;
      for (size_t d = 0; d < D; ++d) {
        const double c0 = static_cast<double>(m.getCellCentersPositionAlong(d)[ray.front()[d]]);
        const double c1 = static_cast<double>(m.getCellCentersPositionAlong(d)[ray.back()[d]]);
        const double over0 = std::fabs(r.o[d] - c0) - res / 2, over1 = std::fabs(r.e[d] - c1) - res / 2;
        c.maxStat("origin-cell-miss/tol", over0 / tol);
        c.maxStat("end-cell-miss/tol", over1 / tol);
        if (over1 > 0) {c.maxStat("end-cell-miss[eps*scale]", over1 / (eps * scale)); c.maxStat("end-cell-miss[cells]", over1 / res);}
        c.check(over0 <= tol,
          vf::fmt("%s: origin is %.3g outside the first cell %s on axis %zu (tol %.3g)", ctx.c_str(), over0, idxStr(ray.front()).c_str(), d, tol));
        c.check(over1 <= tol,
          vf::fmt("%s: end point is %.3g (%.3g cell) outside the last cell %s on axis %zu; end point's cell is %s, %zu cells (tol %.3g)",
          ctx.c_str(), over1, over1 / res, idxStr(ray.back()).c_str(), d, idxStr(ie).c_str(), ray.size(), tol));
        farFromBorder = std::min(farFromBorder, -over1);
      }
      if (farFromBorder > tol) {
        c.check(ray.back() == ie,
          vf::fmt("%s: chain ends in %s, the end point's own cell is %s", ctx.c_str(), idxStr(ray.back()).c_str(), idxStr(ie).c_str()));
      } else {
        c.label("end-point-within-tol-of-a-border");
      }
      // classes
      c.nontrivial(ray.size() >= 3);
      c.labelIf(allEqual, "coincident");
      c.labelIf(axisAligned && !allEqual, "axis-aligned");
      c.labelIf(r.kind == DIAGONAL && !allEqual, "diagonal");
      c.labelIf(r.kind == NEAR_ALIGNED, "near-axis-aligned(ulps)");
      c.labelIf(ray.size() > 500, "long-ray(>500 cells)");
      c.labelIf(ray.size() >= 3, "ray>=3cells");
      bool ob = false, eb = false;
      for (size_t d = 0; d < D; ++d) {
        const double c0 = static_cast<double>(m.getCellCentersPositionAlong(d)[io[d]]);
        const double c1 = static_cast<double>(m.getCellCentersPositionAlong(d)[ie[d]]);
        if (std::fabs(std::fabs(r.o[d] - c0) - res / 2) <= 4 * eps * scale) {ob = true;}
        if (std::fabs(std::fabs(r.e[d] - c1) - res / 2) <= 4 * eps * scale) {eb = true;}
      }
      c.labelIf(ob, "border-origin");
      c.labelIf(eb, "border-end");
    };

  Caster & caster = *casterHolder;
  for (int k = 0; k < nCasts; ++k) {
    const Step & st = steps[k];
    const Ray<D> & r = rays[k];
    const std::string w = vf::fmt("cast#%d(form %d, pre %d/%d)", k, st.form, st.pre, st.nNext);
    // fresh caster: the reference of history independence, and the object of the geometric oracle
    Caster fresh(&m);
    Chain ref = fresh.cast(toPt(r.o), toPt(r.e));
    checkChain(r, ref, w + " fresh");

    // the reused caster, with state left over from whatever was done before
    if (st.pre == 3) {caster.setOriginPoint(toPt(preOrigin[k]));}
    if (st.pre >= 2) {caster.setEndPoint(toPt(preEnd[k]));}
    if (st.pre >= 1) {
      Idx scratch = caster.getOriginPointIndexes();
      for (int q = 0; q < st.nNext; ++q) {caster.next(scratch);}
    }
    Chain got;
    if (st.form == 0 && st.aliasOrigin) {
      // the origin argument IS the caster's own end point object
      c.harnessCheck((caster.getEndPoint() - toPt(r.o)).norm() == 0, "aliased origin differs from the previous end point");
      got = caster.cast(caster.getEndPoint(), toPt(r.e));
    } else if (st.form == 0) {
      got = caster.cast(toPt(r.o), toPt(r.e));
    } else if (st.form == 1) {
      caster.setOriginPoint(toPt(r.o));
      got = caster.cast(toPt(r.e));
    } else if (st.form == 3) {
      caster.setOriginPoint(toPt(r.o));
      caster.setEndPoint(toPt(r.e));
      got = caster.cast();
    } else {
      got = caster.cast(toPt(r.e));
    }
    c.check(got.size() == caster.computeRayNumberOfCells(),
      vf::fmt("%s: chain has %zu cells, computeRayNumberOfCells() says %zu", w.c_str(), got.size(), caster.computeRayNumberOfCells()));
    bool same = got.size() == ref.size();
    size_t firstDiff = 0;
    for (size_t q = 0; same && q < got.size(); ++q) {
      if (got[q] != ref[q]) {same = false; firstDiff = q;}
    }
    if (!same) {
      c.fail(vf::fmt("%s: result of the reused caster differs from a fresh caster on the same grid/origin/end: %zu vs %zu cells, first "
        "difference at #%zu (%s vs %s); o=%s e=%s res=%.17g", w.c_str(), got.size(), ref.size(), firstDiff,
        firstDiff < got.size() ? idxStr(got[firstDiff]).c_str() : "-", firstDiff < ref.size() ? idxStr(ref[firstDiff]).c_str() : "-",
        ptStr(r.o).c_str(), ptStr(r.e).c_str(), res));
    }
    c.check(caster.getOriginPointIndexes() == ref.front(), w + ": getOriginPointIndexes() differs from the first cell");
    c.check(caster.getEndPointIndexes() == m.computeCellIndexes(toPt(r.e)), w + ": getEndPointIndexes() is not the end point's cell");
    c.check(caster.getOriginPoint() == toPt(r.o) && caster.getEndPoint() == toPt(r.e), w + ": getOriginPoint() / getEndPoint() are not the points of the cast");
    c.labelIf(st.form == 3, "setOriginPoint+setEndPoint+cast()");
    c.label("casts(total)");
    c.labelIf(st.pre != 0, "next()-steps-before-cast");
    c.labelIf(st.form == 2, "cast(e)-keeping-origin");
  }
}

#define RULE \
  "grid: resolution in [0.01,1] (decimals / powers of two / log-uniform), maximal-range or interval form, <= 12 / 150 / 2000 " \
  "cells per axis, bounds in [-1e3,1e3] generic / multiples / half-multiples / zero width, half of them around the origin; " \
  "history of 1..6 casts on one caster: optional leftovers (next() steps, setEndPoint+next(), setOriginPoint+setEndPoint+" \
  "next()), then cast(o,e) | setOriginPoint(o)+cast(e) | cast(e) keeping the origin | setOriginPoint(o)+setEndPoint(e)+cast(); caster bound " \
  "by its constructor / default constructed then bound / re-bound after a cast on another grid; origin/end per axis uniform / bound / " \
  "cell border or centre +-0..2 ulp / next to a bound, all-lattice points (cell corners, centres), extent corners; ray kinds " \
  "generic, axis-aligned (1..D-1 zero components), exact diagonal k*res*(+-1..), coincident, near-axis-aligned (component of " \
  "0..4 ulp across a border), short (<= 3 cells); origin / end point reused from the previous cast. Every cast is checked on a " \
  "fresh caster (geometry, tol = eps*scale*(8+steps/8), scale = max(|grid bounds|, ray length)) and the reused caster must " \
  "return the identical chain. Class counters count casts, not histories. Non-trivial: some ray of >= 3 cells."

const std::vector<vf::Sub> kSubs = {
  {"double2", body<double, 2>, RULE},
  {"double3", body<double, 3>, RULE},
  {"float2", body<float, 2>, RULE},
  {"float3", body<float, 3>, RULE},
};

}  // namespace

VF_HARNESS(kSubs)
