// C06 - ICP + RANSAC recovers every small displacement of the reference scan; RANSAC ignores gross outliers
//
// Known finding K3 (see /verif/known_findings.json, DESIGN.md section 6): point-to-plane ICP with the test-suite's
// settings (std 0.2, default 10 iterations) does not converge in the corner tx >= ~0.178, ty >= ~0.18, theta >= ~0.046
// of the envelope (speckled region; witness (0.2, 0.2, 0.05)). The region tx >= 0.17 && ty >= 0.17 && theta >= 0.044 is
// excluded from the search by construction (and counted); the witness is run separately.
#include "vf_main.hpp"

#include <Eigen/Dense>
#include <algorithm>
#include <fstream>
#include "romea_core_common/transform/estimation/FindRigidTransformationByICP.hpp"
#include "romea_core_common/transform/estimation/RansacRigidTransformationModel.hpp"
#include "romea_core_common/regression/ransac/Ransac.hpp"

using namespace romea::core;

namespace {

const std::vector<std::array<double, 2>> & referenceScan()
{
  static std::vector<std::array<double, 2>> scan;
  if (scan.empty()) {
    const char * repo = getenv("VF_REPO");
    std::string path = std::string(repo ? repo : "/repo") + "/test/data/scan2d.txt";
    std::ifstream data(path);
    if (!data.is_open()) {fprintf(stderr, "HARNESS-ERROR cannot open %s\n", path.c_str()); _exit(3);}
    double x, y;
    while (data >> x >> y) {scan.push_back({x, y});}
    if (scan.size() < 100) {fprintf(stderr, "HARNESS-ERROR reference scan has only %zu points\n", scan.size()); _exit(3);}
    // the repository's own loader (test_pointset_utils.hpp) pushes the last point twice: reproduce its input
    scan.push_back(scan.back());
  }
  return scan;
}

bool inK3Region(double tx, double ty, double th) {return tx >= 0.17 && ty >= 0.17 && th >= 0.044;}

template<class PT>
bool runIcp(double tx, double ty, double th, Eigen::Matrix3d & est, bool & found, bool kdTreeOverload = false, int targetOrder = 0)
{
  PointSet<PT> src, tgt;
  Eigen::Affine2d T = Eigen::Translation2d(tx, ty) * Eigen::Rotation2Dd(th);
  for (const auto & p : referenceScan()) {
    PT s;
    s[0] = p[0]; s[1] = p[1];
    if (PointTraits<PT>::SIZE == 3) {s[2] = 1;}
    src.push_back(s);
    Eigen::Vector2d q = T * Eigen::Vector2d(p[0], p[1]);
    PT t;
    t[0] = q[0]; t[1] = q[1];
    if (PointTraits<PT>::SIZE == 3) {t[2] = 1;}
    tgt.push_back(t);
  }
  if (targetOrder == 1) {
    std::reverse(tgt.begin(), tgt.end());            // the displaced scan listed in the opposite sweep direction
  } else if (targetOrder == 2) {
    vf::Rng shuffle(0xC06ULL);                        // ... or in an arbitrary order (a point set has no order)
    for (size_t k = tgt.size() - 1; k > 0; --k) {std::swap(tgt[k], tgt[shuffle.below(k + 1)]);}
  }
  using Guess = Eigen::Matrix<typename PT::Scalar, 3, 3>;
  FindRigidTransformationByICP<PT> icp(0.2);
  if (kdTreeOverload) {
    KdTree<PT> srcTree(src), tgtTree(tgt);
    found = icp.find(src, srcTree, tgt, tgtTree, Guess::Identity(), FindRigidTransformationByICP<PT>::EstimationMethod::LEAST_SQUARES);
  } else {
    found = icp.find(src, tgt, Guess::Identity(), FindRigidTransformationByICP<PT>::EstimationMethod::LEAST_SQUARES);
  }
  est = icp.getTransformation().template cast<double>();
  return true;
}

void icpBody(vf::Ctx & c)
{
  double tx, ty, th;
  size_t mode = c.s.pick("displacement_mode", {3, 2, 2, 1});
  if (mode == 1) {
    // the 27 corner / edge / face centres and the zero displacement
    tx = 0.2 * static_cast<double>(c.s.i("corner_x", -1, 1));
    ty = 0.2 * static_cast<double>(c.s.i("corner_y", -1, 1));
    th = 0.05 * static_cast<double>(c.s.i("corner_t", -1, 1));
    c.label("corner/edge/face-centre");
  } else if (mode == 2) {
    // within 10 % of a face of the envelope
    tx = c.s.uni("tx", -0.2, 0.2); ty = c.s.uni("ty", -0.2, 0.2); th = c.s.uni("theta", -0.05, 0.05);
    int face = static_cast<int>(c.s.i("face", 0, 5));
    double u = c.s.uni("face_depth", 0.9, 1.0) * ((face & 1) ? -1 : 1);
    if (face / 2 == 0) {tx = 0.2 * u;} else if (face / 2 == 1) {ty = 0.2 * u;} else {th = 0.05 * u;}
    c.label("near-face(10%)");
  } else if (mode == 3) {
    tx = ty = th = 0;
    c.label("zero-displacement");
  } else {
    tx = c.s.r("tx", -0.2, 0.2); ty = c.s.r("ty", -0.2, 0.2); th = c.s.r("theta", -0.05, 0.05);
    c.label("interior");
  }
  bool homogeneous = c.s.flag("homogeneous");
  c.label(homogeneous ? "HomogeneousCoordinates2d" : "Vector2d");
  c.nontrivial(std::hypot(tx, ty) > 0.02 || std::fabs(th) > 0.005);
  bool treeOverload = c.s.flag("kdtree_overload", 1, 3);
  if (treeOverload) {c.label("find-overload-with-caller-built-kd-trees");}
  int targetOrder = static_cast<int>(c.s.pick("target_point_order", {4, 1, 1}));
  if (targetOrder != 0) {c.label("target-scan-stored-in-another-point-order");}
  const bool single = c.s.flag("single_precision_points", 1, 4);
  if (single) {c.label(homogeneous ? "HomogeneousCoordinates2f" : "Vector2f");}
  c.commit();
  if (inK3Region(tx, ty, th)) {
    c.label("excluded-known-K3-region");
    return;
  }
  Eigen::Matrix3d est;
  bool found;
  if (single) {
    if (homogeneous) {runIcp<HomogeneousCoordinates2f>(tx, ty, th, est, found, treeOverload, targetOrder);} else {runIcp<Eigen::Vector2f>(tx, ty, th, est, found, treeOverload, targetOrder);}
  } else if (homogeneous) {runIcp<HomogeneousCoordinates2d>(tx, ty, th, est, found, treeOverload, targetOrder);} else {runIcp<Eigen::Vector2d>(tx, ty, th, est, found, treeOverload, targetOrder);}
  Eigen::Matrix3d truth = (Eigen::Translation2d(tx, ty) * Eigen::Rotation2Dd(th)).matrix();
  double err = (est - truth).norm();
  c.maxStat("icp-frobenius-error", found ? err : 1e9);
  VF_CHECK(c, found, "ICP reported failure for displacement (%.17g, %.17g, %.17g) [%s]; estimate error %.4g", tx, ty, th, homogeneous ? "homogeneous" : "Cartesian", err);
  VF_CHECK(c, err <= 0.015, "ICP estimate is %.4g (Frobenius) away from the true motion (%.17g, %.17g, %.17g) [%s]", err, tx, ty, th, homogeneous ? "homogeneous" : "Cartesian");
}

// the recorded witness of K3: still failing => KNOWN-FINDING line; passing => nothing to report
void icpK3Witness(vf::Ctx & c)
{
  size_t w = c.s.pick("witness", {1, 1});
  c.nontrivial();
  c.commit();
  Eigen::Matrix3d est;
  bool found;
  if (w == 0) {runIcp<Eigen::Vector2d>(0.2, 0.2, 0.05, est, found);} else {runIcp<HomogeneousCoordinates2d>(0.2, 0.2, 0.05, est, found);}
  Eigen::Matrix3d truth = (Eigen::Translation2d(0.2, 0.2) * Eigen::Rotation2Dd(0.05)).matrix();
  double err = (est - truth).norm();
  if (!found || err > 0.015) {
    c.known("K3", vf::fmt("ICP at the corner (0.2, 0.2, 0.05): found=%d, error %.4g", found, err));
  }
}

// ---------------------------------------------------------------------------------------------------------
template<class PT>
void runRansac(vf::Ctx & c, int n, double sigma, double outlierFraction, double motionScale, uint64_t seed, const char * tn, bool permuteTargets, bool coherentOutliers = false)
{
  constexpr int D = PointTraits<PT>::DIM;
  constexpr int SIZE = PointTraits<PT>::SIZE;
  vf::Rng rng(seed);
  // true motion: up to 0.5 m / 0.2 rad
  Eigen::Matrix<double, D, D> R;
  double angle = 0.2 * motionScale * rng.uniform(-1, 1);
  if (D == 2) {
    Eigen::Matrix2d r2 = Eigen::Rotation2Dd(angle).toRotationMatrix();
    for (int i = 0; i < 2; ++i) {for (int j = 0; j < 2; ++j) {R(i, j) = r2(i, j);}}
  } else {
    Eigen::Vector3d ax(rng.gauss(), rng.gauss(), rng.gauss());
    ax.normalize();
    Eigen::Matrix3d r3 = Eigen::AngleAxisd(angle, ax).toRotationMatrix();
    for (int i = 0; i < 3; ++i) {for (int j = 0; j < 3; ++j) {R(i, j) = r3(i, j);}}
  }
  Eigen::Matrix<double, D, 1> t;
  {
    Eigen::Matrix<double, D, 1> dir;
    for (int d = 0; d < D; ++d) {dir[d] = rng.gauss();}
    dir.normalize();
    t = 0.5 * motionScale * rng.u() * dir;
  }
  PointSet<PT> src, tgt;
  std::vector<Correspondence> corr;
  int nOut = static_cast<int>(std::floor(outlierFraction * n));
  // coherent outliers: a second rigid body - all outliers share one extra displacement (> 10 sigma) and are even
  // less noisy than the inliers
  Eigen::Matrix<double, D, 1> commonShift;
  {
    Eigen::Matrix<double, D, 1> dir;
    for (int d = 0; d < D; ++d) {dir[d] = rng.gauss();}
    dir.normalize();
    commonShift = rng.uniform(12.0, 50.0) * sigma * dir;
  }
  for (int k = 0; k < n; ++k) {
    Eigen::Matrix<double, D, 1> p, q;
    for (int d = 0; d < D; ++d) {p[d] = rng.uniform(-10, 10);}
    q = R * p + t;
    for (int d = 0; d < D; ++d) {q[d] += 0.3 * sigma * rng.gauss() / std::sqrt(static_cast<double>(D));}
    if (k < nOut) {
      Eigen::Matrix<double, D, 1> dir;
      for (int d = 0; d < D; ++d) {dir[d] = rng.gauss();}
      dir.normalize();
      if (coherentOutliers) {
        q = R * p + t + commonShift;
        for (int d = 0; d < D; ++d) {q[d] += 0.1 * sigma * rng.gauss() / std::sqrt(static_cast<double>(D));}
      } else {
        q += rng.uniform(10.5, 50.0) * sigma * dir;   // gross outlier: more than 10 sigma away
      }
    }
    PT s, g;
    for (int d = 0; d < D; ++d) {s[d] = p[d]; g[d] = q[d];}
    if (SIZE > D) {s[SIZE - 1] = 1; g[SIZE - 1] = 1;}
    src.push_back(s); tgt.push_back(g);
  }
  // shuffle so that outliers are not the first entries
  for (int k = n - 1; k > 0; --k) {
    int j = static_cast<int>(rng.below(k + 1));
    std::swap(src[k], src[j]); std::swap(tgt[k], tgt[j]);
  }
  // correspondences: identity pairing, or the target set stored in another order (pair k = (k, perm[k]))
  std::vector<int> perm(n);
  for (int k = 0; k < n; ++k) {perm[k] = k;}
  if (permuteTargets) {
    for (int k = n - 1; k > 0; --k) {std::swap(perm[k], perm[static_cast<int>(rng.below(k + 1))]);}
    PointSet<PT> stored(tgt.size());
    for (int k = 0; k < n; ++k) {stored[perm[k]] = tgt[k];}
    tgt = stored;
  }
  for (int k = 0; k < n; ++k) {corr.emplace_back(static_cast<size_t>(k), static_cast<size_t>(perm[k]));}

  RansacRigidTransformationModel<PT> model;
  model.loadPointSets(&src, &tgt);
  model.loadTargetNormalSet(nullptr);
  model.loadCorrespondences(&corr, static_cast<size_t>(n));
  Ransac ransac(&model, sigma);
  bool ok = ransac.estimateModel();
  VF_CHECK(c, ok, "%s: RANSAC estimation failed (n=%d, %d outliers, sigma=%.4g)", tn, n, nOut, sigma);
  Eigen::Matrix<double, D + 1, D + 1> truth = Eigen::Matrix<double, D + 1, D + 1>::Identity();
  truth.template block<D, D>(0, 0) = R;
  truth.template block<D, 1>(0, D) = t;
  Eigen::Matrix<double, D + 1, D + 1> est = model.getTransformation().template cast<double>();
  double err = (est - truth).norm();
  c.maxStat("ransac-frobenius-error", err);
  c.maxStat("ransac-rmse/sigma", model.getRootMeanSquareError() / sigma);
  VF_CHECK(c, err <= 0.015, "%s: consensus transform is %.4g (Frobenius) away from the true motion (n=%d, %d outliers, sigma=%.4g): the outliers had influence", tn, err, n, nOut, sigma);
  VF_CHECK(c, model.getRootMeanSquareError() < sigma, "%s: reported consensus error %.4g is not below the configured noise level %.4g", tn, model.getRootMeanSquareError(), sigma);
}

void ransacBody(vf::Ctx & c)
{
  int type = static_cast<int>(c.s.i("point_type", 0, 7));
  int n = static_cast<int>(c.s.i("pairs", 40, 400));
  double sigma = c.s.r("sigma", 0.005, 0.03);
  size_t ok = c.s.pick("outlier_class", {1, 2, 2});
  double frac = ok == 0 ? 0.0 : (ok == 1 ? c.s.uni("outlier_fraction", 0.0, 0.3) : c.s.uni("outlier_fraction", 0.2, 0.3));
  double motion = c.s.pick("motion_class", {1, 3, 2}) == 0 ? 0.0 : c.s.r("motion_scale", 0.0, 1.0);
  uint64_t seed = c.s.seed("content_seed");
  bool permuted = c.s.flag("target_order_permuted");
  if (permuted) {c.label("target-set-stored-in-another-order");}
  bool coherent = c.s.flag("outliers_form_a_second_rigid_body", 1, 4);
  if (coherent && frac >= 0.05) {c.label("coherent-outliers(second-rigid-body)");}
  static const char * tn[] = {"Vector2d", "HomogeneousCoordinates2d", "Vector3d", "HomogeneousCoordinates3d",
    "Vector2f", "HomogeneousCoordinates2f", "Vector3f", "HomogeneousCoordinates3f"};
  c.label(tn[type]);
  if (frac >= 0.05) {c.label(">=5%-outliers");}
  if (frac >= 0.25) {c.label(">=25%-outliers");}
  if (frac == 0.0) {c.label("no-outliers");}
  c.nontrivial(frac >= 0.05);
  c.commit();
  switch (type) {
    case 0: runRansac<Eigen::Vector2d>(c, n, sigma, frac, motion, seed, tn[0], permuted, coherent); break;
    case 1: runRansac<HomogeneousCoordinates2d>(c, n, sigma, frac, motion, seed, tn[1], permuted, coherent); break;
    case 2: runRansac<Eigen::Vector3d>(c, n, sigma, frac, motion, seed, tn[2], permuted, coherent); break;
    case 3: runRansac<HomogeneousCoordinates3d>(c, n, sigma, frac, motion, seed, tn[3], permuted, coherent); break;
    case 4: runRansac<Eigen::Vector2f>(c, n, sigma, frac, motion, seed, tn[4], permuted, coherent); break;
    case 5: runRansac<HomogeneousCoordinates2f>(c, n, sigma, frac, motion, seed, tn[5], permuted, coherent); break;
    case 6: runRansac<Eigen::Vector3f>(c, n, sigma, frac, motion, seed, tn[6], permuted, coherent); break;
    default: runRansac<HomogeneousCoordinates3f>(c, n, sigma, frac, motion, seed, tn[7], permuted, coherent); break;
  }
}

const std::vector<vf::Sub> kSubs = {
  {"icp", icpBody,
    "displacement (tx,ty,theta) of test/data/scan2d.txt in [-0.2,0.2]^2 x [-0.05,0.05]: boundary-biased interior, the 27 corner / "
    "edge / face centres, points within 10 % of a face, the zero displacement; Vector2d or HomogeneousCoordinates2d; fresh ICP with "
    "std 0.2, identity guess, LEAST_SQUARES. Cases in the recorded K3 region (tx>=0.17, ty>=0.17, theta>=0.044) are not run and are "
    "counted in class 'excluded-known-K3-region'. Non-trivial: |t| > 0.02 or |theta| > 0.005."},
  {"icp_k3_witness", icpK3Witness, "the recorded witness (0.2, 0.2, 0.05) of known finding K3, Cartesian and homogeneous"},
  {"ransac", ransacBody,
    "40..400 pairs uniform in a 20 m box (2-D or 3-D, Cartesian or homogeneous double), sigma in [0.005,0.03], inlier noise "
    "N(0,(0.3 sigma)^2), outlier fraction 0 / U[0,0.3] / U[0.2,0.3] with each outlier displaced 10.5..50 sigma in a random "
    "direction, motion up to 0.5 m and 0.2 rad, identity pairing or target set stored in a permuted order, fresh "
    "RansacRigidTransformationModel (SVD mode) + Ransac per case. "
    "Non-trivial: >= 5 % outliers."},
};

}  // namespace

VF_HARNESS(kSubs)
