// C10 - Euler angles, rotation matrices, quaternions, angle normalisers and polar/spherical coordinates
//       are mutually consistent parametrisations (float and double)
#include "vf_main.hpp"

#include <Eigen/Geometry>
#include <type_traits>
#include "romea_core_common/coordinates/PolarCoordinates.hpp"
#include "romea_core_common/coordinates/SphericalCoordinates.hpp"
#include "romea_core_common/math/EulerAngles.hpp"
#include "romea_core_common/math/Transformation.hpp"
#include "romea_core_common/transform/SmartRotation3D.hpp"

namespace rc_ = romea::core;

namespace {

typedef long double LD;
const double PI = 3.14159265358979323846;
const double TWO_PI = 2 * PI, FOUR_PI = 4 * PI, HALF_PI = PI / 2;
const LD PIL = 3.141592653589793238462643383279502884L;
const LD TWO_PIL = 2 * PIL;
const double PITCH_MAX = HALF_PI - 1e-3;     // quantifier: |pitch| <= pi/2 - 1e-3
const double R20_MAX = 1.0 - 1e-6;           // quantifier: |R(2,0)| <= 1 - 1e-6

// tolerance constants (in units of eps of the scalar under test, see props.json "tolerances")
const double C_BUILD = 32;    // entries of a rotation built from three sin/cos pairs, vs the long-double product
const double C_PROPER = 64;   // R^T R - I and det - 1
const double C_ANGLE = 32;    // extracted angle, times 1/cos(pitch)
const double C_ROT = 64;      // R -> angles -> R, times 1/sqrt(1-R20^2)
const double C_NORM = 8;      // normaliser congruence, times max(1,|input|)
const double C_PLANAR = 32;   // planar angle <-> 2x2 rotation
const double C_POLAR = 16;    // polar round trips (relative)
const double C_SPH = 16;      // spherical round trips, times 1/max(sin(elevation), sqrt(eps))

// oracle check with lazily built message (the message is only formatted when the check fails)
#define CHECK(cond, msg) do {if (!(cond)) {c.fail(msg);}} while (0)

#define KEY(name) (std::is_same<S, float>::value ? name "[float]" : name "[double]")

template<typename S> double eps() {return vf::epsOf<S>();}

// nearest value of the scalar type with |x| < bound (bound evaluated in double): open intervals of the quantifier
template<typename S>
S inOpen(double v, double bound)
{
  S x = static_cast<S>(v);
  while (!(std::fabs(static_cast<double>(x)) < bound)) {x = std::nextafter(x, S(0));}
  return x;
}

template<typename S>
S inClosed(double v, double bound)
{
  S x = static_cast<S>(v);
  while (!(std::fabs(static_cast<double>(x)) <= bound)) {x = std::nextafter(x, S(0));}
  return x;
}

// ---------------------------------------------------------------------------------------------
// explicit reference: R = Rz(yaw) * Ry(pitch) * Rx(roll), long double
// ---------------------------------------------------------------------------------------------
struct M3
{
  LD m[3][3];
};

M3 mul(const M3 & a, const M3 & b)
{
  M3 r;
  for (int i = 0; i < 3; ++i) {
    for (int j = 0; j < 3; ++j) {
      LD s = 0;
      for (int k = 0; k < 3; ++k) {s += a.m[i][k] * b.m[k][j];}
      r.m[i][j] = s;
    }
  }
  return r;
}

M3 refRx(LD a) {LD c = cosl(a), s = sinl(a); return M3{{{1, 0, 0}, {0, c, -s}, {0, s, c}}};}
M3 refRy(LD a) {LD c = cosl(a), s = sinl(a); return M3{{{c, 0, s}, {0, 1, 0}, {-s, 0, c}}};}
M3 refRz(LD a) {LD c = cosl(a), s = sinl(a); return M3{{{c, -s, 0}, {s, c, 0}, {0, 0, 1}}};}
M3 refZYX(LD roll, LD pitch, LD yaw) {return mul(refRz(yaw), mul(refRy(pitch), refRx(roll)));}

// rotation matrix of the unit quaternion (w,x,y,z), long double, textbook formula
M3 refQuat(LD w, LD x, LD y, LD z)
{
  LD n = sqrtl(w * w + x * x + y * y + z * z);
  w /= n; x /= n; y /= n; z /= n;
  return M3{{{1 - 2 * (y * y + z * z), 2 * (x * y - w * z), 2 * (x * z + w * y)},
    {2 * (x * y + w * z), 1 - 2 * (x * x + z * z), 2 * (y * z - w * x)},
    {2 * (x * z - w * y), 2 * (y * z + w * x), 1 - 2 * (x * x + y * y)}}};
}

template<typename Mat>
double maxDiff(const Mat & A, const M3 & B)
{
  double d = 0;
  for (int i = 0; i < 3; ++i) {
    for (int j = 0; j < 3; ++j) {
      double e = static_cast<double>(fabsl(static_cast<LD>(A(i, j)) - B.m[i][j]));
      if (!(e <= d)) {d = e;}   // NaN propagates
    }
  }
  return d;
}

template<typename MatA, typename MatB>
double maxDiffMM(const MatA & A, const MatB & B)
{
  double d = 0;
  for (int i = 0; i < A.rows(); ++i) {
    for (int j = 0; j < A.cols(); ++j) {
      double e = std::fabs(static_cast<double>(A(i, j)) - static_cast<double>(B(i, j)));
      if (!(e <= d)) {d = e;}
    }
  }
  return d;
}

// max |R^T R - I| and |det R - 1|, evaluated in long double from the entries as stored
template<typename Mat>
void properResiduals(const Mat & R, int n, double & ortho, double & det)
{
  ortho = 0;
  for (int i = 0; i < n; ++i) {
    for (int j = 0; j < n; ++j) {
      LD s = 0;
      for (int k = 0; k < n; ++k) {s += static_cast<LD>(R(k, i)) * static_cast<LD>(R(k, j));}
      double e = static_cast<double>(fabsl(s - (i == j ? 1.0L : 0.0L)));
      if (!(e <= ortho)) {ortho = e;}
    }
  }
  LD d;
  if (n == 2) {
    d = static_cast<LD>(R(0, 0)) * R(1, 1) - static_cast<LD>(R(0, 1)) * R(1, 0);
  } else {
    d = static_cast<LD>(R(0, 0)) * (static_cast<LD>(R(1, 1)) * R(2, 2) - static_cast<LD>(R(1, 2)) * R(2, 1)) -
      static_cast<LD>(R(0, 1)) * (static_cast<LD>(R(1, 0)) * R(2, 2) - static_cast<LD>(R(1, 2)) * R(2, 0)) +
      static_cast<LD>(R(0, 2)) * (static_cast<LD>(R(1, 0)) * R(2, 1) - static_cast<LD>(R(1, 1)) * R(2, 0));
  }
  det = static_cast<double>(fabsl(d - 1.0L));
}

template<typename S, typename Mat>
void checkProper(vf::Ctx & c, const Mat & R, int n, double unit, const char * what, const char * key)
{
  double o, d;
  properResiduals(R, n, o, d);
  c.maxStat(key, std::max(o, d) / unit);
  CHECK(o <= C_PROPER * unit, vf::fmt("%s is not orthonormal: max|R^T R - I| = %.3g (tolerance %.3g)", what, o, C_PROPER * unit));
  CHECK(d <= C_PROPER * unit, vf::fmt("%s is not a proper rotation: |det - 1| = %.3g (tolerance %.3g)", what, d, C_PROPER * unit));
}

// angle in [0, 2pi] evaluated in the scalar type (float(2*pi) is the float upper end)
template<typename S>
void checkIn02Pi(vf::Ctx & c, S a, const char * what)
{
  CHECK(std::isfinite(a), vf::fmt("%s is not finite", what));
  CHECK(a >= S(0) && a <= static_cast<S>(TWO_PI), vf::fmt("%s = %.17g outside [0, 2*pi]", what, static_cast<double>(a)));
}

// ---------------------------------------------------------------------------------------------
// generators
// ---------------------------------------------------------------------------------------------
// an angle in [-bound, bound]: 0 / boundary-biased over the range / packed around k*pi/2 / k*pi/2 as a double
double genTurnAngle(vf::Ctx & c, const char * ncls, const char * nk, const char * nv, double bound, int kmax)
{
  size_t cls = c.s.pick(ncls, {1, 6, 3, 1});
  if (cls == 0) {return 0.0;}
  if (cls == 1) {return c.s.r(nv, -bound, bound);}
  double x = static_cast<double>(c.s.i(nk, -kmax, kmax)) * HALF_PI;
  if (cls == 2) {return c.s.near(nv, x, 2.0, 15.0, -bound, bound);}
  return x;
}

double genPitch(vf::Ctx & c)
{
  size_t cls = c.s.pick("pitch_class", {1, 6, 3, 2});
  if (cls == 0) {return 0.0;}
  if (cls == 1) {return c.s.r("pitch", -PITCH_MAX, PITCH_MAX);}
  if (cls == 3) {return c.s.near("pitch", 0.0, 2.0, 15.0, -PITCH_MAX, PITCH_MAX);}   // almost level: 1e-2 .. 1e-15 rad, +-ulps
  bool up = c.s.flag("pitch_up");
  return c.s.near("pitch", up ? PITCH_MAX : -PITCH_MAX, 3.0, 15.0, -PITCH_MAX, PITCH_MAX);
}

bool genFloat(vf::Ctx & c)
{
  bool f = c.s.pick("scalar", {1, 1}) == 1;
  c.label(f ? "float" : "double");
  return f;
}

// ---------------------------------------------------------------------------------------------
// (1) angles -> R / q -> angles; the three builders; proper rotations
// ---------------------------------------------------------------------------------------------
template<typename S>
void eulerBody(vf::Ctx & c, double rollD, double pitchD, double yawD, const Eigen::Vector3d & tD)
{
  typedef Eigen::Matrix<S, 3, 1> V3;
  typedef Eigen::Matrix<S, 3, 3> Mat3;
  const double e = eps<S>();
  const S roll = inOpen<S>(rollD, TWO_PI), pitch = inClosed<S>(pitchD, PITCH_MAX), yaw = inOpen<S>(yawD, TWO_PI);
  const V3 a(roll, pitch, yaw);
  const double cp = std::cos(static_cast<double>(pitch));
  const M3 ref = refZYX(roll, pitch, yaw);

  // builders
  Mat3 Rq = rc_::eulerAnglesToRotation3D(a);
  Eigen::Quaternion<S> Q = rc_::eulerAnglesToQuaternion(a);
  Mat3 Rq2(Q);
  rc_::SmartRotation3D smart(a.template cast<double>());
  Eigen::Matrix3d Rs = smart.R();
  rc_::SmartRotation3D smart2(static_cast<double>(roll), static_cast<double>(pitch), static_cast<double>(yaw));

  double d1 = maxDiff(Rq, ref), d2 = maxDiff(Rq2, ref), d3 = maxDiff(Rs, ref);
  c.maxStat(KEY("builder eulerAnglesToRotation3D vs explicit Rz*Ry*Rx /eps"), d1 / e);
  c.maxStat(KEY("builder SmartRotation3D vs explicit Rz*Ry*Rx /eps(double)"), d3 / eps<double>());
  CHECK(d1 <= C_BUILD * e, vf::fmt("eulerAnglesToRotation3D differs from the explicit Rz*Ry*Rx by %.3g (tolerance %.3g) at roll=%.17g pitch=%.17g yaw=%.17g",
    d1, C_BUILD * e, static_cast<double>(roll), static_cast<double>(pitch), static_cast<double>(yaw)));
  CHECK(d2 <= C_BUILD * e, vf::fmt("Matrix3(eulerAnglesToQuaternion) differs from the explicit Rz*Ry*Rx by %.3g (tolerance %.3g)", d2, C_BUILD * e));
  CHECK(d3 <= C_BUILD * eps<double>(), vf::fmt("SmartRotation3D::R differs from the explicit Rz*Ry*Rx by %.3g (tolerance %.3g) at roll=%.17g pitch=%.17g yaw=%.17g",
    d3, C_BUILD * eps<double>(), static_cast<double>(roll), static_cast<double>(pitch), static_cast<double>(yaw)));
  double d4 = maxDiffMM(Rs, Rq);
  CHECK(d4 <= 2 * C_BUILD * e, vf::fmt("SmartRotation3D::R and eulerAnglesToRotation3D disagree by %.3g", d4));
  CHECK(smart2.R() == Rs, "SmartRotation3D(x,y,z) and SmartRotation3D(vector) give different matrices");
  Eigen::Vector3d probe(0.3, -1.7, 2.9);
  CHECK(((smart * probe) - Rs * probe).norm() == 0, "SmartRotation3D::operator* does not apply R()");

  // proper rotations
  checkProper<S>(c, Rq, 3, e, "eulerAnglesToRotation3D", KEY("proper-rotation residual /eps"));
  checkProper<S>(c, Rq2, 3, e, "Matrix3(eulerAnglesToQuaternion)", KEY("proper-rotation residual /eps"));
  checkProper<double>(c, Rs, 3, eps<double>(), "SmartRotation3D::R", "proper-rotation residual SmartRotation3D /eps(double)");
  double qn = std::fabs(static_cast<double>(Q.norm()) - 1.0);
  CHECK(qn <= C_PROPER * e, vf::fmt("eulerAnglesToQuaternion is not a unit quaternion: |norm-1| = %.3g", qn));
  V3 t(static_cast<S>(tD[0]), static_cast<S>(tD[1]), static_cast<S>(tD[2]));
  Eigen::Transform<S, 3, Eigen::Affine> T = rc_::rigid_transformation3(t, a);
  Mat3 Lin = T.linear();
  checkProper<S>(c, Lin, 3, e, "rigid_transformation3 linear part", KEY("proper-rotation residual /eps"));
  CHECK(T.matrix().row(3) == (Eigen::Matrix<S, 1, 4>() << 0, 0, 0, 1).finished(), "rigid_transformation3: last row is not (0,0,0,1)");

  // angles -> R -> angles and angles -> q -> angles, modulo 2*pi
  const double tolA = C_ANGLE * e / cp;
  V3 e1 = rc_::rotation3DToEulerAngles(Rq);
  V3 e2 = rc_::quaternionToEulerAngles(Q);
  const char * nm[3] = {"roll", "pitch", "yaw"};
  for (int k = 0; k < 3; ++k) {
    checkIn02Pi<S>(c, e1[k], "rotation3DToEulerAngles component");
    checkIn02Pi<S>(c, e2[k], "quaternionToEulerAngles component");
    double r1 = vf::angDiff(static_cast<double>(e1[k]), static_cast<double>(a[k]));
    double r2 = vf::angDiff(static_cast<double>(e2[k]), static_cast<double>(a[k]));
    c.maxStat(KEY("angles->R->angles residual *cos(pitch)/eps"), r1 * cp / e);
    c.maxStat(KEY("angles->q->angles residual *cos(pitch)/eps"), r2 * cp / e);
    CHECK(r1 <= tolA, vf::fmt("angles->R->angles: %s %.17g came back as %.17g (difference %.3g mod 2*pi, tolerance %.3g; roll=%.17g pitch=%.17g yaw=%.17g)",
      nm[k], static_cast<double>(a[k]), static_cast<double>(e1[k]), r1, tolA, static_cast<double>(roll), static_cast<double>(pitch), static_cast<double>(yaw)));
    CHECK(r2 <= tolA, vf::fmt("angles->q->angles: %s %.17g came back as %.17g (difference %.3g mod 2*pi, tolerance %.3g; roll=%.17g pitch=%.17g yaw=%.17g)",
      nm[k], static_cast<double>(a[k]), static_cast<double>(e2[k]), r2, tolA, static_cast<double>(roll), static_cast<double>(pitch), static_cast<double>(yaw)));
  }
  // the derivative-carrying helper's matrix read back (this is the path Pose3D uses)
  Eigen::Vector3d e3 = rc_::rotation3DToEulerAngles(Rs);
  for (int k = 0; k < 3; ++k) {
    checkIn02Pi<double>(c, e3[k], "rotation3DToEulerAngles(SmartRotation3D::R)");
    double r3 = vf::angDiff(e3[k], static_cast<double>(a[k]));
    c.maxStat("angles->SmartRotation3D->angles residual *cos(pitch)/eps(double)", r3 * cp / eps<double>());
    CHECK(r3 <= C_ANGLE * eps<double>() / cp, vf::fmt("angles->SmartRotation3D::R->angles: %s %.17g came back as %.17g (difference %.3g)",
      nm[k], static_cast<double>(a[k]), e3[k], r3));
  }
}

void eulerRoundTrip(vf::Ctx & c)
{
  bool isF = genFloat(c);
  double roll = genTurnAngle(c, "roll_class", "roll_k", "roll", TWO_PI, 4);
  double pitch = genPitch(c);
  double yaw = genTurnAngle(c, "yaw_class", "yaw_k", "yaw", TWO_PI, 4);
  Eigen::Vector3d t(c.s.r("tx", -1e3, 1e3), c.s.r("ty", -1e3, 1e3), c.s.r("tz", -1e3, 1e3));
  c.nontrivial(roll != 0 && pitch != 0 && yaw != 0);
  c.labelIf(roll < 0 || yaw < 0 || pitch < 0, "negative");
  c.labelIf(std::fabs(roll) > PI || std::fabs(yaw) > PI, "wrap(|roll| or |yaw| > pi)");
  c.labelIf(std::fabs(roll) > HALF_PI && std::fabs(roll) < 3 * HALF_PI, "roll-in-back-half-plane");
  c.labelIf(TWO_PI - std::fabs(roll) < 1e-6 || TWO_PI - std::fabs(yaw) < 1e-6, "at +-2pi");
  c.labelIf(std::fabs(pitch) > PITCH_MAX - 1e-3, "near-gimbal");
  c.commit();
  if (isF) {eulerBody<float>(c, roll, pitch, yaw, t);} else {eulerBody<double>(c, roll, pitch, yaw, t);}
}

// ---------------------------------------------------------------------------------------------
// (2) rotation -> angles -> rotation ; quaternion (unit or not) -> angles -> same rotation
// ---------------------------------------------------------------------------------------------
template<typename S>
void rotationBody(vf::Ctx & c, const double q[4], double scale)
{
  typedef Eigen::Matrix<S, 3, 1> V3;
  typedef Eigen::Matrix<S, 3, 3> Mat3;
  const double e = eps<S>();
  const M3 ref = refQuat(q[0], q[1], q[2], q[3]);
  Mat3 Rin;
  for (int i = 0; i < 3; ++i) {for (int j = 0; j < 3; ++j) {Rin(i, j) = static_cast<S>(ref.m[i][j]);}}
  const double r20 = static_cast<double>(Rin(2, 0));
  if (!(std::fabs(r20) <= R20_MAX)) {c.skip();}                 // outside the quantifier
  const double cp = std::sqrt(1.0 - r20 * r20);
  const double tol = C_ROT * e / cp;

  V3 a = rc_::rotation3DToEulerAngles(Rin);
  for (int k = 0; k < 3; ++k) {checkIn02Pi<S>(c, a[k], "rotation3DToEulerAngles component");}
  Mat3 Rb = rc_::eulerAnglesToRotation3D(a);
  double d = maxDiffMM(Rb, Rin);
  c.maxStat(KEY("R->angles->R residual *sqrt(1-R20^2)/eps"), d * cp / e);
  CHECK(d <= tol, vf::fmt("R->angles->R: max entry difference %.3g (tolerance %.3g), R20=%.17g, angles (%.17g, %.17g, %.17g)",
    d, tol, r20, static_cast<double>(a[0]), static_cast<double>(a[1]), static_cast<double>(a[2])));
  rc_::SmartRotation3D smart(a.template cast<double>());
  double ds = maxDiffMM(smart.R(), Rin);
  CHECK(ds <= tol, vf::fmt("R->angles->SmartRotation3D::R: max entry difference %.3g (tolerance %.3g), R20=%.17g", ds, tol, r20));

  // quaternion handed to the library: the unit quaternion times `scale` (unit up to rounding when scale == 1)
  LD n = sqrtl(static_cast<LD>(q[0]) * q[0] + static_cast<LD>(q[1]) * q[1] + static_cast<LD>(q[2]) * q[2] + static_cast<LD>(q[3]) * q[3]);
  double qh[4] = {static_cast<double>(q[0] / n), static_cast<double>(q[1] / n), static_cast<double>(q[2] / n), static_cast<double>(q[3] / n)};
  Eigen::Quaternion<S> qin(static_cast<S>(scale * qh[0]), static_cast<S>(scale * qh[1]), static_cast<S>(scale * qh[2]),
    static_cast<S>(scale * qh[3]));
  V3 aq = rc_::quaternionToEulerAngles(qin);
  for (int k = 0; k < 3; ++k) {checkIn02Pi<S>(c, aq[k], "quaternionToEulerAngles component");}
  Mat3 Rqb = rc_::eulerAnglesToRotation3D(aq);
  double dq = maxDiff(Rqb, ref);
  c.maxStat(KEY("q->angles->R vs rotation of q, *sqrt(1-R20^2)/eps"), dq * cp / e);
  CHECK(dq <= tol, vf::fmt("q->angles->rotation differs from the rotation of q by %.3g (tolerance %.3g); q=(w %.17g, %.17g, %.17g, %.17g) scale %.6g R20=%.17g",
    dq, tol, q[0], q[1], q[2], q[3], scale, r20));
  Eigen::Quaternion<S> qb = rc_::eulerAnglesToQuaternion(aq);
  double qq[4] = {static_cast<double>(qb.w()), static_cast<double>(qb.x()), static_cast<double>(qb.y()), static_cast<double>(qb.z())};
  double dm = 0, dp = 0;
  for (int k = 0; k < 4; ++k) {dm = std::max(dm, std::fabs(qq[k] - qh[k])); dp = std::max(dp, std::fabs(qq[k] + qh[k]));}
  double dqq = std::min(dm, dp);
  if (std::isnan(dm) || std::isnan(dp)) {dqq = NAN;}
  c.maxStat(KEY("q->angles->q residual (up to sign) *sqrt(1-R20^2)/eps"), dqq * cp / e);
  CHECK(dqq <= tol, vf::fmt("q->angles->q: quaternion differs (up to sign) by %.3g (tolerance %.3g)", dqq, tol));
}

void rotationRoundTrip(vf::Ctx & c)
{
  bool isF = genFloat(c);
  double q[4];
  size_t mode = c.s.pick("rot_mode", {3, 1});
  double margin = 1.0;
  if (mode == 0) {
    q[0] = c.s.r("qw", -1, 1); q[1] = c.s.r("qx", -1, 1); q[2] = c.s.r("qy", -1, 1); q[3] = c.s.r("qz", -1, 1);
  } else {
    // packed around the |R20| = 1 - 1e-6 margin: quaternion of Rz(yaw) Ry(pitch) Rx(roll), pitch near +-asin(1-1e-6)
    const double pm = std::asin(R20_MAX);
    bool up = c.s.flag("pitch_up");
    double pitch = c.s.near("pitch", up ? pm : -pm, 4.0, 15.0, -pm, pm);
    double roll = c.s.r("roll", -PI, PI), yaw = c.s.r("yaw", -PI, PI);
    double cr = std::cos(roll / 2), sr = std::sin(roll / 2), cq = std::cos(pitch / 2), sq = std::sin(pitch / 2),
      cy = std::cos(yaw / 2), sy = std::sin(yaw / 2);
    q[0] = cy * cq * cr + sy * sq * sr;
    q[1] = cy * cq * sr - sy * sq * cr;
    q[2] = cy * sq * cr + sy * cq * sr;
    q[3] = sy * cq * cr - cy * sq * sr;
    margin = pm - std::fabs(pitch);
  }
  size_t sc = c.s.pick("q_scale_class", {1, 1});
  double scale = (sc == 0) ? 1.0 : c.s.rlog("q_scale", 1e-3, 1e3);
  double n2 = q[0] * q[0] + q[1] * q[1] + q[2] * q[2] + q[3] * q[3];
  if (n2 < 1e-6) {c.skip();}     // no direction
  double r20 = 2 * (q[1] * q[3] - q[0] * q[2]) / n2, r21 = 2 * (q[2] * q[3] + q[0] * q[1]) / n2, r10 = 2 * (q[1] * q[2] + q[0] * q[3]) / n2;
  c.nontrivial(std::fabs(r20) > 1e-9 && std::fabs(r21) > 1e-9 && std::fabs(r10) > 1e-9);
  c.labelIf(mode == 1 && margin < 1e-4, "near-gimbal");
  c.labelIf(scale != 1.0, "non-unit-quaternion");
  c.labelIf(scale == 1.0, "unit-quaternion");
  c.labelIf(q[0] < 0, "negative-w");
  c.commit();
  if (isF) {rotationBody<float>(c, q, scale);} else {rotationBody<double>(c, q, scale);}
}

// ---------------------------------------------------------------------------------------------
// (3) angle normalisers
// ---------------------------------------------------------------------------------------------
template<typename S>
void checkNormalised(vf::Ctx & c, S in, S out, double lo, double hi, const char * what)
{
  const double e = eps<S>();
  CHECK(std::isfinite(out), vf::fmt("%s(%.17g) is not finite", what, static_cast<double>(in)));
  // interval membership evaluated in the scalar type: the end points are the scalar-type images of lo, hi
  CHECK(out >= static_cast<S>(lo) && out <= static_cast<S>(hi),
    vf::fmt("%s(%.17g) = %.17g is outside [%.17g, %.17g]", what, static_cast<double>(in), static_cast<double>(out),
    static_cast<double>(static_cast<S>(lo)), static_cast<double>(static_cast<S>(hi))));
  LD d = static_cast<LD>(out) - static_cast<LD>(in);
  LD k = roundl(d / TWO_PIL);
  double res = static_cast<double>(fabsl(d - k * TWO_PIL));
  double unit = e * std::max(1.0, std::fabs(static_cast<double>(in)));
  c.maxStat(KEY("normaliser congruence residual /(eps*max(1,|input|))"), res / unit);
  CHECK(res <= C_NORM * unit, vf::fmt("%s(%.17g) = %.17g is not congruent to its input modulo 2*pi (residual %.3g, tolerance %.3g)",
    what, static_cast<double>(in), static_cast<double>(out), res, C_NORM * unit));
}

template<typename S>
void normaliserBody(vf::Ctx & c, double vD)
{
  const S v = inOpen<S>(vD, FOUR_PI);    // precondition asserted by the library: -4*pi < val < 4*pi
  checkNormalised<S>(c, v, rc_::between0And2Pi(v), 0.0, TWO_PI, "between0And2Pi");
  checkNormalised<S>(c, v, rc_::betweenMinusPiAndPi(v), -PI, PI, "betweenMinusPiAndPi");
}

void normalisers(vf::Ctx & c)
{
  bool isF = genFloat(c);
  size_t cls = c.s.pick("v_class", {1, 6, 5, 2, 2});
  double v = 0;
  bool boundary = false;
  if (cls == 1) {
    v = c.s.r("v", -FOUR_PI, FOUR_PI);
  } else if (cls == 2 || cls == 3) {
    double x = static_cast<double>(c.s.i("v_k", -4, 4)) * PI;
    v = (cls == 2) ? c.s.near("v", x, 1.0, 16.0, -FOUR_PI, FOUR_PI) : x;
    boundary = true;
  } else if (cls == 4) {
    bool neg = c.s.flag("v_neg");
    double m = std::pow(10.0, -static_cast<double>(c.s.i("v_exp", 1, 320)));   // down to denormals and 0
    v = neg ? -m : m;
  }
  c.nontrivial(v < -PI || v > TWO_PI);
  c.labelIf(v < -PI || v > TWO_PI, "wrap(outside [-pi,2pi])");
  c.labelIf(v < 0, "negative");
  c.labelIf(std::fabs(v) > TWO_PI, "beyond-one-turn");
  c.labelIf((v > -TWO_PI && v < -PI) || (v > -FOUR_PI && v < -3 * PI), "(-2pi,-pi) or (-4pi,-3pi)");
  c.labelIf(boundary, "at-or-near k*pi");
  c.labelIf(cls == 4, "tiny");
  c.commit();
  if (isF) {normaliserBody<float>(c, v);} else {normaliserBody<double>(c, v);}
}

// ---------------------------------------------------------------------------------------------
// (4) planar angle <-> 2x2 rotation
// ---------------------------------------------------------------------------------------------
template<typename S>
void planarBody(vf::Ctx & c, double thD)
{
  typedef Eigen::Matrix<S, 2, 2> Mat2;
  const double e = eps<S>();
  const S th = inOpen<S>(thD, TWO_PI);
  const LD cs = cosl(static_cast<LD>(th)), sn = sinl(static_cast<LD>(th));
  Mat2 R = rc_::eulerAngleToRotation2D(th);
  LD refm[2][2] = {{cs, -sn}, {sn, cs}};
  double d = 0;
  Mat2 Rin;
  for (int i = 0; i < 2; ++i) {
    for (int j = 0; j < 2; ++j) {
      d = std::max(d, static_cast<double>(fabsl(static_cast<LD>(R(i, j)) - refm[i][j])));
      Rin(i, j) = static_cast<S>(refm[i][j]);
    }
  }
  c.maxStat(KEY("eulerAngleToRotation2D vs explicit /eps"), d / e);
  CHECK(d <= C_PLANAR * e, vf::fmt("eulerAngleToRotation2D(%.17g) differs from [[c,-s],[s,c]] by %.3g", static_cast<double>(th), d));
  checkProper<S>(c, R, 2, e, "eulerAngleToRotation2D", KEY("proper-rotation residual 2x2 /eps"));
  S back = rc_::rotation2DToEulerAngle(R);
  checkIn02Pi<S>(c, back, "rotation2DToEulerAngle");
  double r = vf::angDiff(static_cast<double>(back), static_cast<double>(th));
  c.maxStat(KEY("angle->R2->angle residual /eps"), r / e);
  CHECK(r <= C_PLANAR * e, vf::fmt("angle->R2->angle: %.17g came back as %.17g (difference %.3g mod 2*pi, tolerance %.3g)",
    static_cast<double>(th), static_cast<double>(back), r, C_PLANAR * e));
  // R2 -> angle -> R2 on the reference matrix
  S a2 = rc_::rotation2DToEulerAngle(Rin);
  checkIn02Pi<S>(c, a2, "rotation2DToEulerAngle");
  Mat2 Rb = rc_::eulerAngleToRotation2D(a2);
  double d2 = maxDiffMM(Rb, Rin);
  c.maxStat(KEY("R2->angle->R2 residual /eps"), d2 / e);
  CHECK(d2 <= C_PLANAR * e, vf::fmt("R2->angle->R2: max entry difference %.3g (tolerance %.3g) for the rotation of angle %.17g",
    d2, C_PLANAR * e, static_cast<double>(th)));
}

void planar(vf::Ctx & c)
{
  bool isF = genFloat(c);
  double th = genTurnAngle(c, "theta_class", "theta_k", "theta", TWO_PI, 4);
  c.nontrivial(th != 0);
  c.labelIf(th < 0, "negative");
  c.labelIf(std::fabs(th) > PI, "wrap(|theta| > pi)");
  c.labelIf(std::fabs(th) > HALF_PI && std::fabs(th) < 3 * HALF_PI, "back-half-plane");
  c.commit();
  if (isF) {planarBody<float>(c, th);} else {planarBody<double>(c, th);}
}

// ---------------------------------------------------------------------------------------------
// (5) polar <-> Cartesian ; (6) spherical <-> Cartesian
// ---------------------------------------------------------------------------------------------
// azimuth in [-pi, pi]: uniform / packed around the axes / the axes
double genAzimuth(vf::Ctx & c, bool & onAxis)
{
  size_t cls = c.s.pick("az_class", {1, 5, 3});
  onAxis = false;
  if (cls == 1) {return c.s.r("az", -PI, PI);}
  double x = static_cast<double>(c.s.i("az_k", -2, 2)) * HALF_PI;
  if (cls == 2) {return c.s.near("az", x, 2.0, 15.0, -PI, PI);}
  onAxis = true;
  return x;
}

template<typename S>
bool normInDomain(LD n) {return n >= 1e-6L && n <= 1e6L;}

template<typename S>
void polarBody(vf::Ctx & c, double nD, double azD, int axisK, bool onAxis, bool negZero)
{
  const double e = eps<S>();
  typedef rc_::CartesianCoordinates2<S> C2;
  typedef rc_::HomogeneousCoordinates2<S> H2;
  typedef rc_::PolarCoordinates<S> Pol;
  // ---- Cartesian -> polar -> Cartesian
  S x, y;
  if (onAxis) {
    const S n = static_cast<S>(nD), z = negZero ? S(-0.0) : S(0);
    switch (((axisK % 4) + 4) % 4) {
      case 0: x = n; y = z; break;
      case 1: x = z; y = n; break;
      case 2: x = -n; y = z; break;
      default: x = z; y = -n; break;
    }
  } else {
    x = static_cast<S>(nD * std::cos(azD)); y = static_cast<S>(nD * std::sin(azD));
  }
  const LD nrm = hypotl(static_cast<LD>(x), static_cast<LD>(y));
  if (!normInDomain<S>(nrm)) {c.skip();}
  const double tolC = C_POLAR * e * static_cast<double>(nrm);
  {
    Pol p = rc_::toPolar(C2(x, y));
    CHECK(std::isfinite(p.getRange()) && std::isfinite(p.getAzimut()) && p.getRange() >= 0, "toPolar: non-finite or negative range");
    C2 b = rc_::toCartesian(p);
    double d = std::max(std::fabs(static_cast<double>(b.x()) - static_cast<double>(x)), std::fabs(static_cast<double>(b.y()) - static_cast<double>(y)));
    c.maxStat(KEY("cartesian->polar->cartesian residual /(eps*norm)"), d / (e * static_cast<double>(nrm)));
    CHECK(d <= tolC, vf::fmt("toCartesian(toPolar(p)) differs from p=(%.17g, %.17g) by %.3g (tolerance %.3g); polar (%.17g, %.17g)",
      static_cast<double>(x), static_cast<double>(y), d, tolC, static_cast<double>(p.getRange()), static_cast<double>(p.getAzimut())));
    // homogeneous twins (the homogeneous -> polar conversion is named toHomogeneous in the library)
    Pol ph = rc_::toHomogeneous(H2(x, y));
    H2 bh = rc_::toHomogeneous(ph);
    double dh = std::max(std::fabs(static_cast<double>(bh.x()) - static_cast<double>(x)), std::fabs(static_cast<double>(bh.y()) - static_cast<double>(y)));
    CHECK(dh <= tolC, vf::fmt("homogeneous polar round trip differs from p=(%.17g, %.17g) by %.3g (tolerance %.3g)",
      static_cast<double>(x), static_cast<double>(y), dh, tolC));
    CHECK(bh[2] == S(1), "toHomogeneous(polar): homogeneous coordinate is not 1");
    // scalar overloads
    S r2 = rc_::PolarTransform::range(x, y), a2 = rc_::PolarTransform::azimut(x, y);
    S bx = rc_::PolarTransform::x(r2, a2), by = rc_::PolarTransform::y(r2, a2);
    double ds = std::max(std::fabs(static_cast<double>(bx) - static_cast<double>(x)), std::fabs(static_cast<double>(by) - static_cast<double>(y)));
    CHECK(ds <= tolC, vf::fmt("PolarTransform scalar round trip differs from p=(%.17g, %.17g) by %.3g (tolerance %.3g)",
      static_cast<double>(x), static_cast<double>(y), ds, tolC));
  }
  // ---- polar -> Cartesian -> polar, canonical polar coordinates (range > 0, azimuth in [-pi, pi])
  {
    const S r = static_cast<S>(nD), az = inClosed<S>(azD, PI);
    if (!normInDomain<S>(static_cast<LD>(r))) {c.skip();}
    C2 p = rc_::toCartesian(Pol(r, az));
    Pol b = rc_::toPolar(p);
    double dr = std::fabs(static_cast<double>(b.getRange()) - static_cast<double>(r)) / static_cast<double>(r);
    double da = vf::angDiff(static_cast<double>(b.getAzimut()), static_cast<double>(az));
    c.maxStat(KEY("polar->cartesian->polar range residual /eps"), dr / e);
    c.maxStat(KEY("polar->cartesian->polar azimuth residual /eps"), da / e);
    CHECK(dr <= C_POLAR * e, vf::fmt("toPolar(toCartesian(r=%.17g, az=%.17g)): range %.17g (relative error %.3g)",
      static_cast<double>(r), static_cast<double>(az), static_cast<double>(b.getRange()), dr));
    CHECK(da <= C_POLAR * e, vf::fmt("toPolar(toCartesian(r=%.17g, az=%.17g)): azimuth %.17g (difference %.3g mod 2*pi, tolerance %.3g)",
      static_cast<double>(r), static_cast<double>(az), static_cast<double>(b.getAzimut()), da, C_POLAR * e));
    H2 ph = rc_::toHomogeneous(Pol(r, az));
    Pol bh = rc_::toHomogeneous(ph);
    double drh = std::fabs(static_cast<double>(bh.getRange()) - static_cast<double>(r)) / static_cast<double>(r);
    double dah = vf::angDiff(static_cast<double>(bh.getAzimut()), static_cast<double>(az));
    CHECK(drh <= C_POLAR * e && dah <= C_POLAR * e, vf::fmt("homogeneous polar->cartesian->polar of (r=%.17g, az=%.17g) gives (%.17g, %.17g)",
      static_cast<double>(r), static_cast<double>(az), static_cast<double>(bh.getRange()), static_cast<double>(bh.getAzimut())));
  }
}

void polar(vf::Ctx & c)
{
  bool isF = genFloat(c);
  double n = c.s.rlog("norm", 1.0001e-6, 0.9999e6);
  bool onAxis;
  double az = genAzimuth(c, onAxis);
  int k = static_cast<int>(std::lround(az / HALF_PI));
  bool negZero = onAxis ? c.s.flag("neg_zero") : false;
  c.nontrivial(!onAxis);
  c.labelIf(onAxis, "on-axis");
  c.labelIf(az < 0, "negative-azimuth");
  c.labelIf(PI - std::fabs(az) < 1e-6, "azimuth-at +-pi");
  c.labelIf(n < 1e-3, "small-norm(<1e-3)");
  c.labelIf(n > 1e3, "large-norm(>1e3)");
  c.commit();
  if (isF) {polarBody<float>(c, n, az, k, onAxis, negZero);} else {polarBody<double>(c, n, az, k, onAxis, negZero);}
}

// Cartesian -> spherical through the entry points that instantiate for the scalar type
template<typename S>
struct ToSph;

template<>
struct ToSph<double>
{
  static rc_::SphericalCoordinates<double> cart(const rc_::CartesianCoordinates3<double> & p) {return rc_::toSpherical(p);}
  static rc_::SphericalCoordinates<double> homog(const rc_::HomogeneousCoordinates3<double> & p) {return rc_::toSpherical(p);}
};

template<>
struct ToSph<float>
{
  // toSpherical<float> does not compile (DESIGN.md C10 "Instantiability"): use the SphericalTransform functions
  static rc_::SphericalCoordinates<float> cart(const rc_::CartesianCoordinates3<float> & p)
  {
    return rc_::SphericalCoordinates<float>(rc_::SphericalTransform::range(p), rc_::SphericalTransform::azimut(p),
             rc_::SphericalTransform::elevation(p));
  }
  static rc_::SphericalCoordinates<float> homog(const rc_::HomogeneousCoordinates3<float> & p)
  {
    return rc_::SphericalCoordinates<float>(rc_::SphericalTransform::range(p), rc_::SphericalTransform::azimut(p),
             rc_::SphericalTransform::elevation(p));
  }
};

template<typename S>
void checkSphRange(vf::Ctx & c, const rc_::SphericalCoordinates<S> & s, const char * what)
{
  CHECK(std::isfinite(s.getRange()) && std::isfinite(s.getAzimut()) && std::isfinite(s.getElevation()),
    vf::fmt("%s: non-finite spherical coordinates (range %.17g, azimuth %.17g, elevation %.17g)", what,
    static_cast<double>(s.getRange()), static_cast<double>(s.getAzimut()), static_cast<double>(s.getElevation())));
  CHECK(s.getRange() >= 0 && s.getElevation() >= S(0) && s.getElevation() <= static_cast<S>(PI),
    vf::fmt("%s: range %.17g or elevation %.17g out of range", what, static_cast<double>(s.getRange()), static_cast<double>(s.getElevation())));
}

template<typename S>
void sphericalBody(vf::Ctx & c, double nD, double azD, double elD)
{
  const double e = eps<S>();
  const double sqe = std::sqrt(e);
  typedef rc_::CartesianCoordinates3<S> C3;
  typedef rc_::HomogeneousCoordinates3<S> H3;
  typedef rc_::SphericalCoordinates<S> Sph;
  // ---- Cartesian -> spherical -> Cartesian
  {
    const S x = static_cast<S>(nD * std::cos(azD) * std::sin(elD)), y = static_cast<S>(nD * std::sin(azD) * std::sin(elD)),
      z = static_cast<S>(nD * std::cos(elD));
    const LD nrm = sqrtl(static_cast<LD>(x) * x + static_cast<LD>(y) * y + static_cast<LD>(z) * z);
    if (!normInDomain<S>(nrm)) {c.skip();}
    const double sinEl = static_cast<double>(hypotl(static_cast<LD>(x), static_cast<LD>(y)) / nrm);
    const double unit = e / std::max(sinEl, sqe) * static_cast<double>(nrm);
    const double tol = C_SPH * unit;
    auto diff = [&](S bx, S by, S bz) {
        return std::max(std::fabs(static_cast<double>(bx) - static_cast<double>(x)),
                 std::max(std::fabs(static_cast<double>(by) - static_cast<double>(y)), std::fabs(static_cast<double>(bz) - static_cast<double>(z))));
      };
    Sph s = ToSph<S>::cart(C3(x, y, z));
    checkSphRange<S>(c, s, "cartesian->spherical");
    C3 b = rc_::toCartesian(s);
    double d = diff(b.x(), b.y(), b.z());
    if (std::isnan(static_cast<double>(b.x()) + static_cast<double>(b.y()) + static_cast<double>(b.z()))) {d = NAN;}
    c.maxStat(KEY("cartesian->spherical->cartesian residual /(eps*norm/max(sin el,sqrt eps))"), d / unit);
    CHECK(d <= tol, vf::fmt("toCartesian(spherical(p)) differs from p=(%.17g, %.17g, %.17g) by %.3g (tolerance %.3g); spherical (%.17g, %.17g, %.17g)",
      static_cast<double>(x), static_cast<double>(y), static_cast<double>(z), d, tol,
      static_cast<double>(s.getRange()), static_cast<double>(s.getAzimut()), static_cast<double>(s.getElevation())));
    Sph sh = ToSph<S>::homog(H3(x, y, z));
    checkSphRange<S>(c, sh, "homogeneous->spherical");
    H3 bh = rc_::toHomogeneous(sh);
    double dh = diff(bh.x(), bh.y(), bh.z());
    CHECK(dh <= tol, vf::fmt("homogeneous spherical round trip differs from p=(%.17g, %.17g, %.17g) by %.3g (tolerance %.3g)",
      static_cast<double>(x), static_cast<double>(y), static_cast<double>(z), dh, tol));
    CHECK(bh[3] == S(1), "toHomogeneous(spherical): homogeneous coordinate is not 1");
    // point overloads of the component functions (both scalar types): same round trip
    {
      const C3 pc(x, y, z);
      const H3 ph(x, y, z);
      S rp = rc_::SphericalTransform::range(pc), ap = rc_::SphericalTransform::azimut(pc), ep = rc_::SphericalTransform::elevation(pc);
      double dpc = diff(rc_::SphericalTransform::x(rp, ap, ep), rc_::SphericalTransform::y(rp, ap, ep), rc_::SphericalTransform::z(rp, ep));
      CHECK(dpc <= tol, vf::fmt("SphericalTransform range/azimut/elevation(Cartesian point) round trip differs from p=(%.17g, %.17g, %.17g) by %.3g (tolerance %.3g)",
        static_cast<double>(x), static_cast<double>(y), static_cast<double>(z), dpc, tol));
      S rh = rc_::SphericalTransform::range(ph), ah = rc_::SphericalTransform::azimut(ph), eh = rc_::SphericalTransform::elevation(ph);
      double dph = diff(rc_::SphericalTransform::x(rh, ah, eh), rc_::SphericalTransform::y(rh, ah, eh), rc_::SphericalTransform::z(rh, eh));
      CHECK(dph <= tol, vf::fmt("SphericalTransform range/azimut/elevation(homogeneous point) round trip differs from p=(%.17g, %.17g, %.17g) by %.3g (tolerance %.3g)",
        static_cast<double>(x), static_cast<double>(y), static_cast<double>(z), dph, tol));
    }
    // scalar overloads
    S r2 = rc_::SphericalTransform::range(x, y, z), a2 = rc_::SphericalTransform::azimut(x, y), e2 = rc_::SphericalTransform::elevation(x, y, z);
    double dsc = diff(rc_::SphericalTransform::x(r2, a2, e2), rc_::SphericalTransform::y(r2, a2, e2), rc_::SphericalTransform::z(r2, e2));
    CHECK(dsc <= tol, vf::fmt("SphericalTransform scalar round trip differs from p=(%.17g, %.17g, %.17g) by %.3g (tolerance %.3g)",
      static_cast<double>(x), static_cast<double>(y), static_cast<double>(z), dsc, tol));
  }
  // ---- spherical -> Cartesian -> spherical, canonical coordinates (range > 0, azimuth in [-pi,pi], elevation in [0,pi])
  {
    const S r = static_cast<S>(nD), az = inClosed<S>(azD, PI), el = inClosed<S>(elD, PI);
    if (!normInDomain<S>(static_cast<LD>(r))) {c.skip();}
    const double sinEl = std::sin(static_cast<double>(el));
    const double unit = e / std::max(sinEl, sqe);
    C3 p = rc_::toCartesian(Sph(r, az, el));
    Sph b = ToSph<S>::cart(p);
    checkSphRange<S>(c, b, "spherical->cartesian->spherical");
    double dr = std::fabs(static_cast<double>(b.getRange()) - static_cast<double>(r)) / static_cast<double>(r);
    double de = std::fabs(static_cast<double>(b.getElevation()) - static_cast<double>(el));
    c.maxStat(KEY("spherical->cartesian->spherical range residual /eps"), dr / e);
    c.maxStat(KEY("spherical->cartesian->spherical elevation residual /(eps/max(sin el,sqrt eps))"), de / unit);
    CHECK(dr <= C_SPH * e, vf::fmt("spherical->cartesian->spherical of (r=%.17g, az=%.17g, el=%.17g): range %.17g (relative error %.3g)",
      static_cast<double>(r), static_cast<double>(az), static_cast<double>(el), static_cast<double>(b.getRange()), dr));
    CHECK(de <= C_SPH * unit, vf::fmt("spherical->cartesian->spherical of (r=%.17g, az=%.17g, el=%.17g): elevation %.17g (difference %.3g, tolerance %.3g)",
      static_cast<double>(r), static_cast<double>(az), static_cast<double>(el), static_cast<double>(b.getElevation()), de, C_SPH * unit));
    if (sinEl >= sqe) {   // azimuth is undefined at the poles: excluded from the angle comparison only
      double da = vf::angDiff(static_cast<double>(b.getAzimut()), static_cast<double>(az));
      c.maxStat(KEY("spherical->cartesian->spherical azimuth residual /eps"), da / e);
      CHECK(da <= C_SPH * e, vf::fmt("spherical->cartesian->spherical of (r=%.17g, az=%.17g, el=%.17g): azimuth %.17g (difference %.3g mod 2*pi, tolerance %.3g)",
        static_cast<double>(r), static_cast<double>(az), static_cast<double>(el), static_cast<double>(b.getAzimut()), da, C_SPH * e));
    }
  }
}

void spherical(vf::Ctx & c)
{
  bool isF = genFloat(c);
  double n = c.s.rlog("norm", 1.0001e-6, 0.9999e6);
  bool onAxis;
  double az = genAzimuth(c, onAxis);
  size_t ec = c.s.pick("el_class", {1, 5, 3, 1});
  double el;
  if (ec == 0) {el = HALF_PI;} else if (ec == 1) {el = c.s.r("el", 0.0, PI);} else {
    double x = static_cast<double>(c.s.i("el_k", 0, 2)) * HALF_PI;
    el = (ec == 2) ? c.s.near("el", x, 1.0, 15.0, 0.0, PI) : x;
  }
  double se = std::sin(el);
  c.nontrivial(!onAxis && ec != 0 && se > 1e-3);
  c.labelIf(se < 1e-3, "near-pole(sin el<1e-3)");
  c.labelIf(se < 1e-7, "pole");
  c.labelIf(el > HALF_PI, "lower-hemisphere");
  c.labelIf(az < 0, "negative-azimuth");
  c.labelIf(onAxis, "azimuth-on-axis");
  c.labelIf(n < 1e-3, "small-norm(<1e-3)");
  c.labelIf(n > 1e3, "large-norm(>1e3)");
  c.commit();
  if (isF) {sphericalBody<float>(c, n, az, el);} else {sphericalBody<double>(c, n, az, el);}
}


// The derivative-carrying rotation helper must produce "the same matrix" as the other builders whatever the object
// went through before: one SmartRotation3D object re-initialised 2..6 times through both init overloads, with angle
// triples that are new or exactly those of an earlier initialisation; after every init R() must equal a fresh
// object's R() bit for bit and the explicit Rz*Ry*Rx to rounding.
void rotationHelperReuse(vf::Ctx & c)
{
  const double PI_ = 3.14159265358979323846;
  int n = static_cast<int>(c.s.i("n_inits", 2, 6));
  std::vector<Eigen::Vector3d> angles;
  std::vector<int> overload;
  bool repeated = false, zeroed = false;
  for (int k = 0; k < n; ++k) {
    if (k >= 1 && c.s.flag("repeat_earlier_angles", 1, 3)) {
      angles.push_back(angles[static_cast<size_t>(c.s.i("which_earlier", 0, k - 1))]);
      repeated = true;
    } else {
      angles.push_back(Eigen::Vector3d(c.s.r("roll", -2 * PI_ + 1e-9, 2 * PI_ - 1e-9), c.s.r("pitch", -(PI_ / 2 - 1e-3), PI_ / 2 - 1e-3), c.s.r("yaw", -2 * PI_ + 1e-9, 2 * PI_ - 1e-9)));
    }
    // an axis angle that is exactly zero (an "axis not used" shortcut must still reset what an earlier init left there)
    int zeroMask = static_cast<int>(c.s.pick("exact_zero_axes", {4, 1, 1, 1, 1}));
    if (zeroMask >= 1 && zeroMask <= 3) {angles.back()[zeroMask - 1] = 0.0; zeroed = true;}
    if (zeroMask == 4) {angles.back()[0] = 0.0; angles.back()[1] = 0.0; zeroed = true;}
    overload.push_back(static_cast<int>(c.s.i("init_overload", 0, 1)));
  }
  bool startDefault = c.s.flag("start_from_default_object");
  if (repeated) {c.label("same-angles-initialised-again");}
  if (zeroed) {c.label("exactly-zero-angle-on-an-axis");}
  c.nontrivial();
  c.commit();
  rc_::SmartRotation3D obj = startDefault ? rc_::SmartRotation3D() : rc_::SmartRotation3D(angles[0]);
  for (int k = 0; k < n; ++k) {
    if (k > 0 || startDefault) {
      if (overload[k]) {obj.init(angles[k]);} else {obj.init(angles[k][0], angles[k][1], angles[k][2]);}
    }
    rc_::SmartRotation3D fresh(angles[k][0], angles[k][1], angles[k][2]);
    Eigen::Matrix3d ref = (Eigen::AngleAxisd(angles[k][2], Eigen::Vector3d::UnitZ()) * Eigen::AngleAxisd(angles[k][1], Eigen::Vector3d::UnitY()) *
      Eigen::AngleAxisd(angles[k][0], Eigen::Vector3d::UnitX())).toRotationMatrix();
    VF_CHECK(c, obj.R() == fresh.R(), "init #%d (%s overload): R() of the re-initialised helper differs from a freshly constructed one (max %.3g): state of an earlier initialisation leaked",
      k, overload[k] ? "vector" : "scalar", (obj.R() - fresh.R()).cwiseAbs().maxCoeff());
    double d = (obj.R() - ref).cwiseAbs().maxCoeff();
    VF_CHECK(c, d <= 32 * 2.220446049250313e-16, "init #%d: R() differs from the explicit Rz*Ry*Rx by %.3g", k, d);
  }
}

const std::vector<vf::Sub> kSubs = {
  {"rotation_helper_reuse", rotationHelperReuse,
    "one SmartRotation3D object re-initialised 2..6 times (both init overloads, optionally starting from a default-constructed object) with "
    "new angle triples or exactly an earlier one; R() must equal a fresh object's bit for bit and Rz*Ry*Rx to 32 eps. Every case non-trivial."},
  {"euler_roundtrip", eulerRoundTrip,
    "roll, yaw in (-2pi,2pi): 0 / boundary-biased over the range (ends become +-(2pi - ulp)) / packed around k*pi/2 (10^-2..10^-15, +-ulps) / "
    "k*pi/2; pitch in [-(pi/2-1e-3), pi/2-1e-3] incl. packed at the margin; float or double (values rounded to the scalar type and kept "
    "inside the intervals). Non-trivial: roll, pitch and yaw all non-zero."},
  {"rotation_roundtrip", rotationRoundTrip,
    "rotation = matrix of a quaternion with boundary-biased components in [-1,1]^4 (normalised in the harness, long double), or of an Euler "
    "triple whose pitch is packed around the |R20| = 1-1e-6 margin; cases with |R(2,0)| > 1-1e-6 in the scalar type are outside the "
    "quantifier (skipped, counted). Quaternion handed to the library is that quaternion times 1 or times a log-uniform factor in "
    "[1e-3,1e3]. Non-trivial: R20, R21, R10 all non-zero (roll, pitch, yaw all non-zero)."},
  {"normalisers", normalisers,
    "input in (-4pi,4pi): 0 / boundary-biased over the range / packed around k*pi, k=-4..4 (10^-1..10^-16, +-ulps) / k*pi / +-10^-k down to "
    "denormals; float or double, rounded into the open interval the library asserts. Non-trivial: input outside [-pi, 2pi]."},
  {"planar", planar,
    "angle in (-2pi,2pi) with the generator of roll/yaw; float or double. Non-trivial: angle non-zero."},
  {"polar", polar,
    "norm log-uniform in [1e-6,1e6]; azimuth in [-pi,pi] uniform / packed around the axes / exactly on an axis (with +0 or -0 as the other "
    "coordinate); both directions, Cartesian and homogeneous entry points and the scalar overloads; float or double. Non-trivial: point "
    "not on an axis."},
  {"spherical", spherical,
    "norm log-uniform in [1e-6,1e6]; azimuth as for polar; elevation (polar angle) in [0,pi] boundary-biased / packed around 0, pi/2, pi / "
    "exactly those; both directions; double through toSpherical, float through SphericalTransform::range/azimut/elevation (toSpherical<float> "
    "does not compile). Non-trivial: sin(elevation) > 1e-3 and azimuth not on an axis."},
};

}  // namespace

VF_HARNESS(kSubs)
