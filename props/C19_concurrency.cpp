// C19 - Shared variables, statistics and check-ups are safe under concurrent use
//
// Every case is a *workload*: object kind (one sub per kind), number of reader / producer / consumer threads,
// operations per thread, yield pattern and value stream, all drawn from the seeded generator. The harness and the
// library translation units are built with -fsanitize=thread; the driver collects ThreadSanitizer reports from the
// run's log files (a report is a violation in itself) and the body checks value-level invariants: what every reader
// saw must be explainable by some sequential ordering of the calls.
#include "vf_main.hpp"

#include <algorithm>
#include <atomic>
#include <cmath>
#include <sstream>
#include <thread>
#include <set>
#include "romea_core_common/concurrency/SharedVariable.hpp"
#include "romea_core_common/concurrency/SharedOptionalVariable.hpp"
#include "romea_core_common/monitoring/OnlineAverage.hpp"
#include "romea_core_common/monitoring/OnlineVariance.hpp"
#include "romea_core_common/monitoring/RateMonitoring.hpp"
#include "romea_core_common/diagnostic/CheckupEqualTo.hpp"
#include "romea_core_common/diagnostic/CheckupGreaterThan.hpp"
#include "romea_core_common/diagnostic/CheckupLowerThan.hpp"
#include "romea_core_common/diagnostic/CheckupReliability.hpp"
#include "romea_core_common/diagnostic/CheckupRate.hpp"

using namespace romea::core;

namespace {

struct Workload
{
  int readers = 1;
  int writerOps = 100000;
  int yieldEvery = 0;     // 0: never; k: yield with probability 1/k between calls (harness code only)
  uint64_t seed = 1;
};

Workload genWorkload(vf::Ctx & c, int maxReaders)
{
  Workload w;
  w.readers = static_cast<int>(c.s.i("readers", 1, maxReaders));
  w.writerOps = static_cast<int>(c.s.i("writer_ops", 100000, 160000));
  size_t yk = c.s.pick("yield_class", {1, 1, 1});
  w.yieldEvery = yk == 0 ? 0 : (yk == 1 ? 64 : 7);
  w.seed = c.s.seed("value_seed");
  if (w.readers == 1) {c.label("1-reader");} else if (w.readers <= 3) {c.label("2-3-readers");} else {c.label("4-8-readers");}
  return w;
}

// all threads are released together; without this a slowed-down writer may finish before the readers start
struct StartGate
{
  std::atomic<int> waiting{0};
  int parties;
  explicit StartGate(int n)
  : parties(n) {}
  void arriveAndWait()
  {
    waiting.fetch_add(1);
    while (waiting.load() < parties) {std::this_thread::yield();}
  }
};

inline void maybeYield(vf::Rng & rng, int every)
{
  if (every > 0 && rng.below(static_cast<uint64_t>(every)) == 0) {std::this_thread::yield();}
}

struct ReaderResult
{
  std::string error;        // first invariant violation seen by this thread ("" = none)
  uint64_t ops = 0;
  uint64_t distinct = 0;    // number of distinct values observed (overlap witness)
};

void finish(vf::Ctx & c, const std::vector<ReaderResult> & rr, uint64_t writerOps)
{
  uint64_t minDistinct = ~0ull, totalOps = writerOps;
  for (const auto & r : rr) {
    if (!r.error.empty()) {c.fail(r.error);}
    minDistinct = std::min(minDistinct, r.distinct);
    totalOps += r.ops;
  }
  c.harnessCheck(totalOps >= 100000, "fewer than 1e5 operations in the run");
  // non-trivial: every reader observed at least two distinct values, i.e. the threads really overlapped
  c.nontrivial(minDistinct >= 2);
  if (minDistinct >= 2) {c.label("every-reader-saw>=2-values");}
}

// ---------------------------------------------------------------------------------------------------------
// 1. SharedVariable<64-byte payload>
struct Payload
{
  uint64_t w[8];
};
inline Payload makePayload(uint64_t x)
{
  Payload p;
  p.w[0] = x; p.w[1] = ~x; p.w[2] = x * 0x9e3779b97f4a7c15ULL; p.w[3] = x ^ 0x5555555555555555ULL;
  p.w[4] = x + 12345; p.w[5] = x << 7; p.w[6] = x * 31; p.w[7] = ~(x * 31);
  return p;
}
inline bool payloadConsistent(const Payload & p)
{
  Payload q = makePayload(p.w[0]);
  for (int k = 0; k < 8; ++k) {if (p.w[k] != q.w[k]) {return false;}}
  return true;
}

void sharedVariable(vf::Ctx & c)
{
  Workload w = genWorkload(c, 8);
  bool viaOperators = c.s.flag("use_operators");
  c.commit();
  SharedVariable<Payload> var(makePayload(0));
  std::atomic<bool> done{false};
  StartGate gate(w.readers + 1);
  std::vector<ReaderResult> rr(w.readers);
  std::vector<std::thread> th;
  for (int r = 0; r < w.readers; ++r) {
    th.emplace_back([&, r] {
        vf::Rng rng(w.seed + 17 * (r + 1));
        ReaderResult & res = rr[r];
        uint64_t last = 0;
        gate.arriveAndWait();
        while (!done.load() || res.ops < 2000) {
          Payload p = viaOperators ? static_cast<Payload>(var) : var.load();
          res.ops++;
          if (!payloadConsistent(p)) {if (res.error.empty()) {res.error = vf::fmt("SharedVariable: reader %d observed a half-written value (w0=%llu)", r, (unsigned long long)p.w[0]);}}
          else if (p.w[0] < last) {if (res.error.empty()) {res.error = vf::fmt("SharedVariable: reader %d observed value %llu after %llu although the single writer stores increasing values", r, (unsigned long long)p.w[0], (unsigned long long)last);}}
          else if (p.w[0] > static_cast<uint64_t>(w.writerOps)) {if (res.error.empty()) {res.error = "SharedVariable: value never stored";}}
          if (p.w[0] != last) {res.distinct++;}
          last = p.w[0];
          maybeYield(rng, w.yieldEvery);
        }
      });
  }
  {
    vf::Rng rng(w.seed);
    gate.arriveAndWait();
    for (int k = 1; k <= w.writerOps; ++k) {
      if (viaOperators) {var = makePayload(k);} else {var.store(makePayload(k));}
      maybeYield(rng, w.yieldEvery);
    }
    done.store(true);
  }
  for (auto & t : th) {t.join();}
  for (auto & r : rr) {r.distinct += 1;}
  finish(c, rr, w.writerOps);
}

// 2. SharedOptionalVariable: producers / consumers
void sharedOptional(vf::Ctx & c)
{
  int producers = static_cast<int>(c.s.i("producers", 1, 4));
  int consumers = static_cast<int>(c.s.i("consumers", 1, 4));
  int ops = static_cast<int>(c.s.i("ops_per_producer", 60000, 100000));
  size_t yk = c.s.pick("yield_class", {1, 1, 1});
  int yieldEvery = yk == 0 ? 0 : (yk == 1 ? 64 : 7);
  uint64_t seed = c.s.seed("value_seed");
  c.label(producers == 1 ? "1-producer" : "2-4-producers");
  c.label(consumers == 1 ? "1-consumer" : "2-4-consumers");
  c.commit();
  SharedOptionalVariable<uint64_t> var;
  std::atomic<int> producersDone{0};
  StartGate gate(producers + consumers);
  std::vector<std::vector<uint64_t>> got(consumers);
  std::vector<uint64_t> consumerOps(consumers, 0);
  std::vector<std::thread> th;
  for (int p = 0; p < producers; ++p) {
    th.emplace_back([&, p] {
        vf::Rng rng(seed + 101 * (p + 1));
        gate.arriveAndWait();
        for (int k = 0; k < ops; ++k) {
          var.store((static_cast<uint64_t>(p) << 32) | static_cast<uint64_t>(k));
          maybeYield(rng, yieldEvery);
        }
        producersDone.fetch_add(1);
      });
  }
  for (int q = 0; q < consumers; ++q) {
    th.emplace_back([&, q] {
        vf::Rng rng(seed + 7 * (q + 1));
        got[q].reserve(ops);
        gate.arriveAndWait();
        while (producersDone.load() < producers || consumerOps[q] < 50000) {
          std::optional<uint64_t> v = var.consume();
          consumerOps[q]++;
          if (v.has_value()) {got[q].push_back(*v);}
          maybeYield(rng, yieldEvery);
        }
      });
  }
  for (auto & t : th) {t.join();}
  // one last value may still be pending
  std::optional<uint64_t> rest = var.consume();
  std::set<uint64_t> seen;
  uint64_t total = 0, minGot = ~0ull;
  for (int q = 0; q < consumers; ++q) {
    std::vector<int64_t> lastSeq(producers, -1);
    for (uint64_t v : got[q]) {
      int p = static_cast<int>(v >> 32);
      int64_t k = static_cast<int64_t>(v & 0xffffffffu);
      c.check(p >= 0 && p < producers && k < ops, vf::fmt("SharedOptionalVariable: consumer %d received %llx which no producer stored", q, (unsigned long long)v));
      c.check(seen.insert(v).second, vf::fmt("SharedOptionalVariable: value (producer %d, #%lld) was handed to two consumers / twice", p, (long long)k));
      c.check(k > lastSeq[p], vf::fmt("SharedOptionalVariable: consumer %d received producer %d's value #%lld after #%lld (store order violated)", q, p, (long long)k, (long long)lastSeq[p]));
      lastSeq[p] = k;
    }
    total += consumerOps[q];
    minGot = std::min<uint64_t>(minGot, got[q].size());
  }
  if (rest.has_value()) {c.check(seen.insert(*rest).second, "SharedOptionalVariable: pending value had already been consumed");}
  // at quiescence nothing may be stuck: the store that came last in the global order is the final store of one of the
  // producers, and it was either consumed or is still pending (returned by the consume() above)
  bool finalAccounted = false;
  for (int p = 0; p < producers; ++p) {
    finalAccounted = finalAccounted || seen.count((static_cast<uint64_t>(p) << 32) | static_cast<uint64_t>(ops - 1)) != 0;
  }
  c.check(finalAccounted, vf::fmt("SharedOptionalVariable: after all threads finished, the last stored value of no producer was ever delivered (consumed %zu values, pending %s): a stored value got stuck",
    seen.size(), rest.has_value() ? "one" : "none"));
  c.harnessCheck(total + static_cast<uint64_t>(producers) * ops >= 100000, "fewer than 1e5 operations in the run");
  c.nontrivial(minGot >= 2);
  if (minGot >= 2) {c.label("every-reader-saw>=2-values");}
}


// 2b. SharedOptionalVariable in bursts: producers store a short burst, everything stops, and at that quiescent point the
// variable must hand out the value of the store that came last - a consume() that returns "empty" although a value was
// stored and nobody took it is not producible by any sequential ordering of the calls. Many bursts per workload, so the
// few instructions around the end of a burst are exercised often.
void sharedOptionalBursts(vf::Ctx & c)
{
  int producers = static_cast<int>(c.s.i("producers", 1, 4));
  int consumers = static_cast<int>(c.s.i("consumers", 1, 4));
  int bursts = static_cast<int>(c.s.i("bursts", 150, 300));
  int burstLen = static_cast<int>(c.s.i("stores_per_burst", 50, 400));
  uint64_t seed = c.s.seed("value_seed");
  c.label(producers == 1 ? "1-producer" : "2-4-producers");
  c.label(consumers == 1 ? "1-consumer" : "2-4-consumers");
  c.commit();
  SharedOptionalVariable<uint64_t> var;
  std::set<uint64_t> seen;
  uint64_t totalOps = 0, delivered = 0;
  for (int b = 0; b < bursts; ++b) {
    std::atomic<int> producersDone{0};
    StartGate gate(producers + consumers);
    std::vector<std::vector<uint64_t>> got(consumers);
    std::vector<uint64_t> consumerOps(consumers, 0);
    std::vector<std::thread> th;
    const int len = 1 + static_cast<int>((seed + 31 * b) % static_cast<uint64_t>(burstLen));
    for (int p = 0; p < producers; ++p) {
      th.emplace_back([&, p] {
          gate.arriveAndWait();
          for (int k = 0; k < len; ++k) {
            var.store((static_cast<uint64_t>(b) << 40) | (static_cast<uint64_t>(p) << 32) | static_cast<uint64_t>(k));
          }
          producersDone.fetch_add(1);
        });
    }
    for (int q = 0; q < consumers; ++q) {
      th.emplace_back([&, q] {
          gate.arriveAndWait();
          while (producersDone.load() < producers) {
            std::optional<uint64_t> v = var.consume();
            consumerOps[q]++;
            if (v.has_value()) {got[q].push_back(*v);}
          }
        });
    }
    for (auto & t : th) {t.join();}
    // quiescent: the final store of some producer is the content of the variable unless a consumer already took it
    std::optional<uint64_t> rest = var.consume();
    bool finalAccounted = false;
    for (int q = 0; q < consumers; ++q) {
      for (uint64_t v : got[q]) {
        c.check((v >> 40) == static_cast<uint64_t>(b), "SharedOptionalVariable: a value of an earlier burst was delivered late");
        c.check(seen.insert(v).second, "SharedOptionalVariable: a value was handed out twice");
        delivered++;
      }
      totalOps += consumerOps[q];
    }
    if (rest.has_value()) {c.check(seen.insert(*rest).second, "SharedOptionalVariable: pending value had already been consumed"); delivered++;}
    for (int p = 0; p < producers; ++p) {
      finalAccounted = finalAccounted || seen.count((static_cast<uint64_t>(b) << 40) | (static_cast<uint64_t>(p) << 32) | static_cast<uint64_t>(len - 1)) != 0;
    }
    if (!finalAccounted) {
      c.fail(vf::fmt("SharedOptionalVariable: burst %d (%d stores by each of %d producers, %d consumers): after everything stopped, consume() returned %s and the last stored value of no producer was ever delivered - a stored value is stuck",
        b, len, producers, consumers, rest.has_value() ? "an older value" : "empty"));
    }
    totalOps += static_cast<uint64_t>(producers) * len + 1;
  }
  c.nontrivial(delivered >= 2);
  if (totalOps >= 100000) {c.label(">=1e5-operations");}
}

// 3./4. online statistics
template<bool VARIANCE>
void onlineStat(vf::Ctx & c)
{
  Workload w = genWorkload(c, 8);
  int window = static_cast<int>(c.s.i("window", 2, 64));
  bool withResets = c.s.flag("writer_resets");
  if (withResets) {c.label("writer-resets");}
  c.commit();
  const double lo = -50.0, hi = 150.0, prec = 0.001;
  typename std::conditional<VARIANCE, OnlineVariance, OnlineAverage>::type stat(prec, static_cast<size_t>(window));
  std::atomic<bool> done{false};
  StartGate gate(w.readers + 1);
  std::vector<ReaderResult> rr(w.readers);
  std::vector<std::thread> th;
  const double maxVar = (hi - lo + 1) * (hi - lo + 1) * 2.0 * window;  // any window content gives less
  for (int r = 0; r < w.readers; ++r) {
    th.emplace_back([&, r] {
        vf::Rng rng(w.seed + 17 * (r + 1));
        ReaderResult & res = rr[r];
        double last = -1e300;
        gate.arriveAndWait();
        while (!done.load() || res.ops < 2000) {
          double a = stat.getAverage();
          bool avail = stat.isAvailable();
          (void)avail;
          res.ops += 2;
          if (!std::isnan(a) && !(a >= lo - 2 * prec && a <= hi + 2 * prec)) {
            if (res.error.empty()) {res.error = vf::fmt("online statistic: reader %d got average %.17g outside the range [%g,%g] of the samples", r, a, lo, hi);}
          }
          if constexpr (VARIANCE) {
            double v = stat.getVariance();
            res.ops++;
            if (!std::isnan(v) && !(v >= -1e-3 * maxVar && v <= maxVar)) {
              if (res.error.empty()) {res.error = vf::fmt("OnlineVariance: reader %d got variance %.17g outside [0, %g]", r, v, maxVar);}
            }
          }
          if (a != last && !(std::isnan(a) && std::isnan(last))) {res.distinct++;}
          last = a;
          maybeYield(rng, w.yieldEvery);
        }
      });
  }
  {
    vf::Rng rng(w.seed);
    gate.arriveAndWait();
    for (int k = 1; k <= w.writerOps; ++k) {
      stat.update(rng.uniform(lo, hi));
      if (withResets && rng.below(5000) == 0) {stat.reset();}
      maybeYield(rng, w.yieldEvery);
    }
    done.store(true);
  }
  for (auto & t : th) {t.join();}
  finish(c, rr, w.writerOps);
}


// 4b. OnlineVariance, sequential-consistency of (average, variance) reads. The writer feeds x_k = k^2, for which
// the window mean and the window variance are both strictly increasing in k. A single-threaded run of the same
// sequence records the exact value after every update; in the concurrent run every value a reader gets must be one of
// them (bit for bit), and the state indexes of consecutive reads by one reader (average, variance, average) must not
// decrease: a newer average followed by an older variance is not producible by any sequential ordering of the calls.
void onlineVarianceSequence(vf::Ctx & c)
{
  int readers = static_cast<int>(c.s.i("readers", 1, 6));
  int window = static_cast<int>(c.s.i("window", 2, 64));
  size_t yk = c.s.pick("yield_class", {1, 1, 1});
  int yieldEvery = yk == 0 ? 0 : (yk == 1 ? 64 : 7);
  uint64_t seed = c.s.seed("value_seed");
  c.label(readers == 1 ? "1-reader" : (readers <= 3 ? "2-3-readers" : "4-8-readers"));
  c.commit();
  const int N = 10000;    // x_k = k^2 <= 1e8 = the bound on |x|/precision; integers, so truncation is the identity
  const int k0 = 2 * window + 2;
  auto sample = [](int k) {return static_cast<double>(k) * static_cast<double>(k);};
  std::vector<double> refAvg(N + 1, 0), refVar(N + 1, 0);
  {
    OnlineVariance ref(1.0, static_cast<size_t>(window));
    for (int k = 1; k <= N; ++k) {ref.update(sample(k)); refAvg[k] = ref.getAverage(); refVar[k] = ref.getVariance();}
  }
  for (int k = k0 + 1; k <= N; ++k) {
    c.harnessCheck(refAvg[k] > refAvg[k - 1] && refVar[k] > refVar[k - 1], "reference sequence is not strictly increasing");
  }
  OnlineVariance stat(1.0, static_cast<size_t>(window));
  std::atomic<bool> done{false};
  StartGate gate(readers + 1);
  std::vector<ReaderResult> rr(readers);
  std::vector<std::thread> th;
  auto indexOf = [&](const std::vector<double> & ref, double v) -> int {
      // -1: before the monotone region (not checked); -2: not a value of the sequential run
      if (std::isnan(v) || v < ref[k0]) {return -1;}
      auto it = std::lower_bound(ref.begin() + k0, ref.end(), v);
      if (it == ref.end() || *it != v) {return -2;}
      return static_cast<int>(it - ref.begin());
    };
  for (int r = 0; r < readers; ++r) {
    th.emplace_back([&, r] {
        vf::Rng rng(seed + 17 * (r + 1));
        ReaderResult & res = rr[r];
        int lastIdx = -1;
        gate.arriveAndWait();
        const uint64_t minOps = static_cast<uint64_t>(120000 / readers);
        while (!done.load() || res.ops < minOps) {
          double a1 = stat.getAverage();
          double v = stat.getVariance();
          double a2 = stat.getAverage();
          res.ops += 3;
          int i1 = indexOf(refAvg, a1), iv = indexOf(refVar, v), i2 = indexOf(refAvg, a2);
          if (res.error.empty()) {
            if (i1 == -2 || i2 == -2) {res.error = vf::fmt("OnlineVariance: reader %d got average %.17g which no sequential prefix of the updates produces", r, i1 == -2 ? a1 : a2);}
            else if (iv == -2) {res.error = vf::fmt("OnlineVariance: reader %d got variance %.17g which no sequential prefix of the updates produces", r, v);}
            else if (i1 >= 0 && iv >= 0 && iv < i1) {res.error = vf::fmt("OnlineVariance: reader %d read the average of state %d and afterwards the variance of the OLDER state %d", r, i1, iv);}
            else if (iv >= 0 && i2 >= 0 && i2 < iv) {res.error = vf::fmt("OnlineVariance: reader %d read the variance of state %d and afterwards the average of the OLDER state %d", r, iv, i2);}
            else if (i1 >= 0 && i1 < lastIdx) {res.error = vf::fmt("OnlineVariance: reader %d observed state %d after state %d", r, i1, lastIdx);}
          }
          if (i2 >= 0) {if (i2 != lastIdx) {res.distinct++;} lastIdx = i2;}
          maybeYield(rng, yieldEvery);
        }
      });
  }
  {
    vf::Rng rng(seed);
    gate.arriveAndWait();
    for (int k = 1; k <= N; ++k) {
      stat.update(sample(k));
      std::this_thread::yield();   // only 1e4 updates fit under the magnitude bound: stretch them over the readers' loops
      maybeYield(rng, yieldEvery);
    }
    done.store(true);
  }
  for (auto & t : th) {t.join();}
  uint64_t readerOps = 0;
  for (const auto & r : rr) {readerOps += r.ops;}
  if (readerOps + N < 100000) {c.label("fewer-than-1e5-operations(run-still-checked)");}
  finish(c, rr, std::max<uint64_t>(N, 100000));
}

// 5. RateMonitoring: data thread updates, heartbeat thread calls timeout, readers read the rate
void rateMonitoring(vf::Ctx & c)
{
  Workload w = genWorkload(c, 6);
  c.commit();
  RateMonitoring mon(10.0);  // window 20
  // the exact rates a single-threaded run of the same stamp sequence produces (heartbeats only ever force 0, and the
  // period queue is not touched by them): every non-zero rate a reader sees must be one of these, bit for bit
  std::set<double> sequentialRates;
  {
    RateMonitoring ref(10.0);
    vf::Rng rng(w.seed);
    long long t = 0;
    for (int k = 1; k <= w.writerOps; ++k) {
      t += 50000000LL + static_cast<long long>(rng.below(150000001ULL));
      sequentialRates.insert(ref.update(durationFromNanoSecond(t)));
      if (w.yieldEvery > 0) {(void)rng.below(static_cast<uint64_t>(w.yieldEvery));}   // keep the stream aligned with the writer's
    }
  }
  std::atomic<bool> done{false};
  std::atomic<long long> now{0};
  StartGate gate(w.readers + 2);
  std::vector<ReaderResult> rr(w.readers + 1);
  std::vector<std::thread> th;
  // periods between 50 ms and 200 ms -> rate, when not 0, within [5, 20] Hz
  for (int r = 0; r < w.readers; ++r) {
    th.emplace_back([&, r] {
        vf::Rng rng(w.seed + 17 * (r + 1));
        ReaderResult & res = rr[r];
        double last = -1;
        gate.arriveAndWait();
        while (!done.load() || res.ops < 2000) {
          double rate = mon.getRate();
          res.ops++;
          if (!(rate == 0.0 || (rate >= 5.0 * (1 - 1e-9) && rate <= 20.0 * (1 + 1e-9)))) {
            if (res.error.empty()) {res.error = vf::fmt("RateMonitoring: reader %d got rate %.17g, neither 0 nor within [5,20] Hz given periods of 50..200 ms", r, rate);}
          } else if (rate != 0.0 && !sequentialRates.count(rate)) {
            if (res.error.empty()) {res.error = vf::fmt("RateMonitoring: reader %d got rate %.17g, which no sequential prefix of the stamp sequence produces", r, rate);}
          }
          if (rate != last) {res.distinct++;}
          last = rate;
          maybeYield(rng, w.yieldEvery);
        }
      });
  }
  th.emplace_back([&] {   // heartbeat thread
      vf::Rng rng(w.seed + 999);
      ReaderResult & res = rr[w.readers];
      gate.arriveAndWait();
      while (!done.load() || res.ops < 2000) {
        long long t = now.load() + static_cast<long long>(rng.below(700000000ULL));  // up to 0.7 s after the last stamp
        bool to = mon.timeout(durationFromNanoSecond(t));
        res.ops++;
        if (to) {res.distinct++;}
        maybeYield(rng, w.yieldEvery);
      }
      res.distinct += 2;
    });
  std::string writerError;
  {
    vf::Rng rng(w.seed);
    long long t = 0;
    gate.arriveAndWait();
    for (int k = 1; k <= w.writerOps; ++k) {
      t += 50000000LL + static_cast<long long>(rng.below(150000001ULL));
      double rate = mon.update(durationFromNanoSecond(t));
      // update() reports the rate it has just computed: once the window (20 periods) is full that is never 0 and always
      // a value of the sequential run, whatever the heartbeat thread does meanwhile
      if (k > 21 && writerError.empty() && (rate == 0.0 || !sequentialRates.count(rate))) {
        writerError = vf::fmt("RateMonitoring: update() #%d returned %.17g, which is not the rate of its own window (a concurrent heartbeat leaked into the call)", k, rate);
      }
      now.store(t);
      maybeYield(rng, w.yieldEvery);
    }
    done.store(true);
  }
  for (auto & t : th) {t.join();}
  if (!writerError.empty()) {c.fail(writerError);}
  finish(c, rr, w.writerOps);
}

// 6.-9. threshold check-ups: the verdict is a function of the printed value, so a report copy can be checked for
// internal consistency (status, message and value belong to one evaluation)
struct Expect {const char * value; DiagnosticStatus status; const char * messageEnd;};

std::string checkReport(const DiagnosticReport & rep, const std::string & name, const std::vector<Expect> & table, bool initialAllowed)
{
  if (rep.diagnostics.size() != 1 || rep.info.size() != 1) {return "report does not have exactly one diagnostic and one info entry";}
  const Diagnostic & d = rep.diagnostics.front();
  const std::string & val = rep.info.begin()->second;
  if (rep.info.begin()->first != name) {return "info key changed";}
  // state before the first evaluation: the default diagnostic (STALE, empty message) and an empty value
  if (initialAllowed && val.empty() && d.status == DiagnosticStatus::STALE && d.message.empty()) {return "";}
  for (const Expect & e : table) {
    if (val == e.value) {
      if (d.status != e.status) {return "value '" + val + "' with status " + toString(d.status) + " (message '" + d.message + "')";}
      if (d.message != name + e.messageEnd) {return "value '" + val + "' with message '" + d.message + "'";}
      return "";
    }
  }
  return "unexpected value string '" + val + "' (status " + toString(d.status) + ", message '" + d.message + "')";
}

template<class CheckupT, class Evaluate>
void runCheckup(vf::Ctx & c, const Workload & w, CheckupT & chk, const std::string & name, const std::vector<Expect> & table,
  const std::vector<double> & values, Evaluate evaluate, bool hasTimeout)
{
  std::atomic<bool> done{false};
  StartGate gate(w.readers + 1);
  std::vector<ReaderResult> rr(w.readers);
  std::vector<std::thread> th;
  for (int r = 0; r < w.readers; ++r) {
    th.emplace_back([&, r] {
        vf::Rng rng(w.seed + 17 * (r + 1));
        ReaderResult & res = rr[r];
        std::string last = "?";
        gate.arriveAndWait();
        while (!done.load() || res.ops < 2000) {
          DiagnosticReport rep = chk.getReport();
          res.ops++;
          std::string err = checkReport(rep, name, table, true);
          if (!err.empty() && res.error.empty()) {res.error = "inconsistent report copy in reader " + std::to_string(r) + ": " + err;}
          const std::string & v = rep.info.begin()->second;
          if (v != last) {res.distinct++;}
          last = v;
          maybeYield(rng, w.yieldEvery);
        }
      });
  }
  {
    vf::Rng rng(w.seed);
    gate.arriveAndWait();
    for (int k = 1; k <= w.writerOps; ++k) {
      if (hasTimeout && rng.below(50) == 0) {evaluate(chk, std::nan(""));} else {evaluate(chk, values[rng.below(values.size())]);}
      maybeYield(rng, w.yieldEvery);
    }
    done.store(true);
  }
  for (auto & t : th) {t.join();}
  finish(c, rr, w.writerOps);
}

void checkupEqualTo(vf::Ctx & c)
{
  Workload w = genWorkload(c, 8);
  c.commit();
  CheckupEqualTo<double> chk("speed", 100.0, 1.0);
  std::vector<Expect> table = {{"50", DiagnosticStatus::ERROR, " is too low."}, {"100", DiagnosticStatus::OK, " is OK."},
    {"100.5", DiagnosticStatus::OK, " is OK."}, {"150", DiagnosticStatus::ERROR, " is too high."}, {"", DiagnosticStatus::STALE, " timeout."}};
  runCheckup(c, w, chk, "speed", table, {50, 100, 100.5, 150},
    [](CheckupEqualTo<double> & k, double v) {if (std::isnan(v)) {k.timeout();} else {k.evaluate(v);}}, true);
}

void checkupGreaterThan(vf::Ctx & c)
{
  Workload w = genWorkload(c, 8);
  c.commit();
  CheckupGreaterThan<double> chk("level", 10.0, 0.5);
  std::vector<Expect> table = {{"2", DiagnosticStatus::ERROR, " is too low."}, {"9.75", DiagnosticStatus::OK, " is OK."},
    {"30", DiagnosticStatus::OK, " is OK."}, {"", DiagnosticStatus::STALE, " timeout."}};
  runCheckup(c, w, chk, "level", table, {2, 9.75, 30},
    [](CheckupGreaterThan<double> & k, double v) {if (std::isnan(v)) {k.timeout();} else {k.evaluate(v);}}, true);
}

void checkupLowerThan(vf::Ctx & c)
{
  Workload w = genWorkload(c, 8);
  c.commit();
  CheckupLowerThan<double> chk("temp", 80.0, 0.5);
  std::vector<Expect> table = {{"95", DiagnosticStatus::ERROR, " is too high."}, {"80.25", DiagnosticStatus::OK, " is OK."},
    {"20", DiagnosticStatus::OK, " is OK."}, {"", DiagnosticStatus::STALE, " timeout."}};
  runCheckup(c, w, chk, "temp", table, {95, 80.25, 20},
    [](CheckupLowerThan<double> & k, double v) {if (std::isnan(v)) {k.timeout();} else {k.evaluate(v);}}, true);
}

void checkupReliability(vf::Ctx & c)
{
  Workload w = genWorkload(c, 8);
  c.commit();
  CheckupReliability chk("fix", 0.5, 0.75);
  std::vector<Expect> table = {{"0.25", DiagnosticStatus::ERROR, " is too low."}, {"0.625", DiagnosticStatus::WARN, " is uncertain."},
    {"0.875", DiagnosticStatus::OK, " is high."}};
  runCheckup(c, w, chk, "fix", table, {0.25, 0.625, 0.875},
    [](CheckupReliability & k, double v) {k.evaluate(v);}, false);
}

// 10./11. rate check-ups: data thread evaluates stamps, heartbeat thread calls heartBeatCallback, readers copy reports
template<class RateCheckup, bool EQUAL>
void checkupRate(vf::Ctx & c)
{
  Workload w = genWorkload(c, 6);
  c.commit();
  RateCheckup chk("imu", 10.0, 1.0);   // OK within [9,11] (equal-to) / above 9 (greater-than)
  const std::string name = "imu_rate";
  std::atomic<bool> done{false}, heartbeatDone{false};
  std::atomic<long long> now{0};
  StartGate gate(w.readers + 2);
  std::vector<ReaderResult> rr(w.readers + 1);
  std::vector<std::thread> th;
  for (int r = 0; r < w.readers; ++r) {
    th.emplace_back([&, r] {
        vf::Rng rng(w.seed + 17 * (r + 1));
        ReaderResult & res = rr[r];
        std::string last = "?";
        gate.arriveAndWait();
        while (!heartbeatDone.load() || res.ops < 2000) {
          DiagnosticReport rep = chk.getReport();
          res.ops++;
          std::string err;
          if (rep.diagnostics.size() != 1 || rep.info.size() != 1 || rep.info.begin()->first != name) {err = "report shape changed";} else {
            const Diagnostic & d = rep.diagnostics.front();
            const std::string & val = rep.info.begin()->second;
            if (val.empty()) {
              bool initial = d.status == DiagnosticStatus::ERROR && d.message == "no data received from imu";
              bool stale = d.status == DiagnosticStatus::STALE && d.message == name + " timeout.";
              if (!initial && !stale) {err = "empty value with status " + toString(d.status) + " and message '" + d.message + "'";}
            } else {
              double rate = atof(val.c_str());
              // printed with 6 significant digits: a rate within 1e-4 relative of a threshold accepts either verdict
              auto nearT = [&](double t) {return std::fabs(rate - t) <= 1e-4 * t;};
              bool low = rate < 9.0, high = rate > 11.0;
              std::string want;
              DiagnosticStatus ws;
              if (low) {want = " is too low."; ws = DiagnosticStatus::ERROR;} else if (high && EQUAL) {want = " is too high."; ws = DiagnosticStatus::ERROR;} else {
                want = " is OK."; ws = DiagnosticStatus::OK;
              }
              bool ok = (d.status == ws && d.message == name + want);
              if (!ok && (nearT(9.0) || (EQUAL && nearT(11.0)))) {
                ok = (d.message == name + " is OK." && d.status == DiagnosticStatus::OK) ||
                  (d.message == name + " is too low." && d.status == DiagnosticStatus::ERROR) ||
                  (EQUAL && d.message == name + " is too high." && d.status == DiagnosticStatus::ERROR);
              }
              if (!ok) {err = "value '" + val + "' with status " + toString(d.status) + " and message '" + d.message + "'";}
            }
            if (val != last) {res.distinct++;}
            last = val;
          }
          if (!err.empty() && res.error.empty()) {res.error = "inconsistent rate report copy in reader " + std::to_string(r) + ": " + err;}
          maybeYield(rng, w.yieldEvery);
        }
      });
  }
  th.emplace_back([&] {   // heartbeat thread
      vf::Rng rng(w.seed + 999);
      ReaderResult & res = rr[w.readers];
      gate.arriveAndWait();
      while (!done.load() || res.ops < 2000) {
        long long t = now.load() + static_cast<long long>(rng.below(700000000ULL));
        chk.heartBeatCallback(durationFromNanoSecond(t));
        res.ops++;
        maybeYield(rng, w.yieldEvery);
      }
      // the data thread has stopped: every late heartbeat now detects the silence, and since no evaluation can come in
      // between, the report read right afterwards by this very thread must be the STALE one - while the readers
      // keep copying reports concurrently
      for (int q = 0; q < 3000; ++q) {
        long long t = now.load() + 600000000LL + q;
        bool alive = chk.heartBeatCallback(durationFromNanoSecond(t));
        DiagnosticReport rep = chk.getReport();
        res.ops += 2;
        if (res.error.empty()) {
          if (alive) {res.error = "rate check-up: heartbeat 0.6 s after the last stamp did not report a timeout";} else if (
            rep.diagnostics.empty() || rep.diagnostics.front().status != DiagnosticStatus::STALE || !rep.info.begin()->second.empty())
          {
            res.error = "rate check-up: heartBeatCallback reported a timeout but the report read right afterwards (no evaluation in between) is not STALE/empty: status " +
              (rep.diagnostics.empty() ? std::string("-") : toString(rep.diagnostics.front().status)) + ", value '" + rep.info.begin()->second + "'";
          }
        }
        maybeYield(rng, w.yieldEvery);
      }
      heartbeatDone.store(true);
      res.distinct += 2;
    });
  {
    vf::Rng rng(w.seed);
    long long t = 0;
    int segment = 0, left = 0;
    gate.arriveAndWait();
    for (int k = 1; k <= w.writerOps; ++k) {
      if (left == 0) {segment = static_cast<int>(rng.below(3)); left = 30 + static_cast<int>(rng.below(60));}
      --left;
      long long period = segment == 0 ? 100000000LL : (segment == 1 ? 50000000LL : 200000000LL);  // 10 / 20 / 5 Hz
      t += period;
      chk.evaluate(durationFromNanoSecond(t));
      now.store(t);
      maybeYield(rng, w.yieldEvery);
    }
    done.store(true);
  }
  for (auto & t : th) {t.join();}
  finish(c, rr, w.writerOps);
}

const char * kRule =
  "workload = (1..8 reader threads [1..4 producers x 1..4 consumers for the optional variable; 1..6 readers + 1 heartbeat thread for "
  "the rate objects], 1e5..1.6e5 writer operations, yield pattern never / 1 in 64 / 1 in 7, value seed), all threads released together "
  "by a start gate; readers run until the writer is done. Deciding observations: zero ThreadSanitizer reports in the run (collected "
  "by the driver) and the value invariants stated in the harness (no torn payload, monotone values from a single writer, consumed "
  "values stored once / consumed once / in store order per producer, averages and variances inside the sample range, report copies "
  "whose status, message and value belong to one evaluation). Non-trivial: every reader observed >= 2 distinct values.";

const std::vector<vf::Sub> kSubs = {
  {"shared_variable", sharedVariable, kRule},
  {"shared_optional", sharedOptional, kRule},
  {"shared_optional_bursts", sharedOptionalBursts, kRule},
  {"online_average", onlineStat<false>, kRule},
  {"online_variance", onlineStat<true>, kRule},
  {"online_variance_sequence", onlineVarianceSequence, kRule},
  {"rate_monitoring", rateMonitoring, kRule},
  {"checkup_equal_to", checkupEqualTo, kRule},
  {"checkup_greater_than", checkupGreaterThan, kRule},
  {"checkup_lower_than", checkupLowerThan, kRule},
  {"checkup_reliability", checkupReliability, kRule},
  {"checkup_equal_to_rate", checkupRate<CheckupEqualToRate, true>, kRule},
  {"checkup_greater_than_rate", checkupRate<CheckupGreaterThanRate, false>, kRule},
};

}  // namespace

VF_HARNESS(kSubs)
