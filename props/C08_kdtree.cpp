// C08 - Kd-tree nearest-neighbour queries agree with exhaustive search
//
// One case = one cloud (generated once in double, dimension 2 or 3) + a list of queries. The cloud is converted to
// the four point types of its dimension (float/double x Cartesian/homogeneous, homogeneous coordinate = 1 in points
// and queries), a KdTree is built per type, and every query is answered by findNearestNeighbor and
// findNearestNeighbors and compared with a brute-force search done in long double over the scalar-typed Cartesian
// coordinates.
//
// Tolerance (DESIGN.md C08/T): nanoflann accumulates (a-b)^2 per component in the scalar type, in an order that
// differs from any reference; every term is non-negative, so the relative error of a reported squared distance is
// bounded by (1+u)^6-1 ~ 3 eps_S (u = eps_S/2: one rounding of the difference, one of the square, up to three of the
// additions, +1 for contraction). Branch pruning compares a lower bound that is itself accumulated in the scalar type
// (mindistsq + cut_dist - dst per level, errors relative to the query distance), so the reported j-th distance may
// exceed the true j-th smallest by a few more eps. 16 eps_S relative (+ 8*min_normal absolute, underflow guard) is
// used; the measured worst residuals are exported with maxStat (unit: eps_S).
#include "vf_main.hpp"

#include <algorithm>
#include <Eigen/Core>

#include "romea_core_common/pointset/KdTree.hpp"

namespace {

typedef long double LD;
using romea::core::KdTree;
using romea::core::PointSet;

// ------------------------------------------------------------------------------------------------
// point types
// ------------------------------------------------------------------------------------------------
template<class S, int DIM> struct HomOf;
template<class S> struct HomOf<S, 2> {typedef romea::core::HomogeneousCoordinates2<S> type;};
template<class S> struct HomOf<S, 3> {typedef romea::core::HomogeneousCoordinates3<S> type;};

template<class PT> struct Name;
template<> struct Name<Eigen::Vector2f> {static const char * get() {return "Vector2f";}};
template<> struct Name<Eigen::Vector2d> {static const char * get() {return "Vector2d";}};
template<> struct Name<Eigen::Vector3f> {static const char * get() {return "Vector3f";}};
template<> struct Name<Eigen::Vector3d> {static const char * get() {return "Vector3d";}};
template<> struct Name<romea::core::HomogeneousCoordinates2f> {static const char * get() {return "HomogeneousCoordinates2f";}};
template<> struct Name<romea::core::HomogeneousCoordinates2d> {static const char * get() {return "HomogeneousCoordinates2d";}};
template<> struct Name<romea::core::HomogeneousCoordinates3f> {static const char * get() {return "HomogeneousCoordinates3f";}};
template<> struct Name<romea::core::HomogeneousCoordinates3d> {static const char * get() {return "HomogeneousCoordinates3d";}};

template<class S> struct StatNames;
template<> struct StatNames<float>
{
  static const char * own() {return "float: |reported d2 - brute d2(reported index)| / (eps*d2)";}
  static const char * rank() {return "float: |reported j-th d2 - brute j-th smallest d2| / (eps*d2)";}
};
template<> struct StatNames<double>
{
  static const char * own() {return "double: |reported d2 - brute d2(reported index)| / (eps*d2)";}
  static const char * rank() {return "double: |reported j-th d2 - brute j-th smallest d2| / (eps*d2)";}
};

template<class PT>
PT makePoint(const typename PT::Scalar * x, int dim)
{
  PT p;
  const int size = static_cast<int>(p.size());
  for (int d = 0; d < size; ++d) {p[d] = d < dim ? x[d] : typename PT::Scalar(1);}
  return p;
}

// ------------------------------------------------------------------------------------------------
// generation (double)
// ------------------------------------------------------------------------------------------------
enum CloudMode { UNIFORM, CLUSTERED, LATTICE, DUPLICATES, DEGENERATE, TINY };
enum QueryMode { Q_INSIDE, Q_ON_POINT, Q_NEAR_POINT, Q_FAR_DIAG, Q_FAR_AXIS, Q_JUST_OUTSIDE, Q_CELL, Q_PREVIOUS_NUDGED };

struct Cloud
{
  int dim = 2;
  size_t n = 0;
  std::vector<double> x;   // n*dim
  double lo[3] = {0, 0, 0}, hi[3] = {0, 0, 0};
  double scale = 1;
  bool lattice = false;
  double step = 1;
  double latOrigin[3] = {0, 0, 0};
  int latM = 1;
  bool exactDuplicates = false;
};

struct Query
{
  double q[3] = {0, 0, 0};
  int mode = 0;
  size_t k = 1;
  bool far = false;
};

void fillLattice(Cloud & cl, vf::Rng & rng, int m, double step, const int64_t origin[3], bool half)
{
  cl.lattice = true;
  cl.step = step;
  cl.latM = m;
  for (int d = 0; d < cl.dim; ++d) {cl.latOrigin[d] = (static_cast<double>(origin[d]) + (half ? 0.5 : 0.0)) * step;}
  for (size_t i = 0; i < cl.n; ++i) {
    for (int d = 0; d < cl.dim; ++d) {
      cl.x[i * cl.dim + d] = cl.latOrigin[d] + static_cast<double>(rng.below(m)) * step;   // exact (small dyadic numbers)
    }
  }
}

Cloud genCloud(vf::Ctx & c)
{
  Cloud cl;
  cl.dim = c.s.flag("dim3") ? 3 : 2;
  const int D = cl.dim;
  size_t mode = c.s.pick("cloud_mode", {3, 2, 3, 2, 3, 2});
  const char * modeNames[] = {"cloud:uniform", "cloud:clustered", "cloud:lattice", "cloud:duplicates",
    "cloud:collinear/coplanar", "cloud:tiny(n<=10)"};
  c.label(modeNames[mode]);
  c.label(D == 2 ? "2D" : "3D");
  if (mode == TINY) {
    cl.n = static_cast<size_t>(c.s.i("n_tiny", 1, 10));
  } else {
    cl.n = static_cast<size_t>(c.s.len("n", 1, 5000));
  }
  cl.x.assign(cl.n * D, 0.0);
  cl.scale = c.s.rlog("scale", 1e-2, 1e3);
  // centre of the cloud: the origin, or up to 1000 extents away (float clouds then collapse onto few values: ties)
  double centre[3] = {0, 0, 0};
  size_t offsetClass = c.s.pick("offset_class", {6, 2, 1});
  if (offsetClass == 1) {
    double off = c.s.rlog("offset", 1.0, 1e3);
    for (int d = 0; d < D; ++d) {centre[d] = cl.scale * off * c.s.uni("offset_dir", -1.0, 1.0);}
    c.label("cloud-far-from-origin");
  } else if (offsetClass == 2) {
    // geo-referenced data: coordinates 1e4..1e7 extents away from the origin (map-projection scale; in double the
    // neighbour spacing is still far above the rounding of the coordinates, in float the cloud collapses to ties)
    double off = c.s.rlog("offset_geo", 1e4, 1e7);
    for (int d = 0; d < D; ++d) {centre[d] = cl.scale * off * (c.s.flag("offset_geo_negative") ? -1.0 : 1.0) * c.s.uni("offset_geo_dir", 0.3, 1.0);}
    c.label("cloud-geo-referenced(offset>=1e4 extents)");
  }
  vf::Rng rng(c.s.seed("cloud_seed"));
  const double sc = cl.scale;

  auto uniformFill = [&]() {
      for (size_t i = 0; i < cl.n; ++i) {
        for (int d = 0; d < D; ++d) {cl.x[i * D + d] = centre[d] + sc * rng.uniform(-1.0, 1.0);}
      }
    };
  auto latticeFill = [&]() {
      int m = static_cast<int>(c.s.i("lattice_m", 2, 12));
      double step = std::ldexp(1.0, static_cast<int>(c.s.i("lattice_exp", -6, 6)));
      int64_t origin[3] = {c.s.i("lattice_ox", -8, 8), c.s.i("lattice_oy", -8, 8), D == 3 ? c.s.i("lattice_oz", -8, 8) : 0};
      for (int d = 0; d < D; ++d) {origin[d] += std::llround(centre[d] / step);}   // far-away lattices: float coordinates collapse further
      bool half = c.s.flag("lattice_half");
      fillLattice(cl, rng, m, step, origin, half);
      LD nodes = 1;
      for (int d = 0; d < D; ++d) {nodes *= m;}
      if (static_cast<LD>(cl.n) > nodes) {cl.exactDuplicates = true;}
    };

  switch (mode) {
    case UNIFORM: uniformFill(); break;
    case CLUSTERED: {
        int nc = static_cast<int>(c.s.i("n_clusters", 1, 8));
        double cc[8][3], sg[8];
        for (int j = 0; j < nc; ++j) {
          for (int d = 0; d < D; ++d) {cc[j][d] = centre[d] + sc * rng.uniform(-1.0, 1.0);}
          sg[j] = sc * std::pow(10.0, rng.uniform(-4.0, -1.0));
        }
        for (size_t i = 0; i < cl.n; ++i) {
          int j = static_cast<int>(rng.below(nc));
          for (int d = 0; d < D; ++d) {cl.x[i * D + d] = cc[j][d] + sg[j] * rng.gauss();}
        }
        break;
      }
    case LATTICE: latticeFill(); break;
    case DUPLICATES: {
        size_t f = static_cast<size_t>(c.s.i("dup_factor", 2, 50));
        size_t m = std::max<size_t>(1, cl.n / f);
        std::vector<double> base(m * D);
        for (auto & v : base) {v = sc * rng.uniform(-1.0, 1.0);}
        for (size_t i = 0; i < cl.n; ++i) {
          size_t b = rng.below(m);
          for (int d = 0; d < D; ++d) {cl.x[i * D + d] = centre[d] + base[b * D + d];}
        }
        // note: centre[d] + base is evaluated identically for equal b -> exact duplicates
        cl.exactDuplicates = cl.n > m;
        break;
      }
    case DEGENERATE: {
        // 0 axis-aligned line, 1 oblique line, 2 axis-aligned plane (3D), 3 oblique plane (3D)
        size_t kind = (D == 3) ? c.s.pick("degenerate_kind", {1, 1, 1, 1}) : c.s.pick("degenerate_kind", {1, 1});
        int rank = (kind >= 2) ? 2 : 1;
        bool axis = (kind == 0 || kind == 2);
        double u[2][3] = {{0, 0, 0}, {0, 0, 0}};
        if (axis) {
          int a0 = static_cast<int>(c.s.i("axis", 0, D - 1));
          u[0][a0] = 1.0;
          if (rank == 2) {u[1][(a0 + 1) % D] = 1.0;}
        } else {
          for (int r = 0; r < rank; ++r) {
            double nn = 0;
            for (int d = 0; d < D; ++d) {u[r][d] = rng.gauss(); nn += u[r][d] * u[r][d];}
            nn = std::sqrt(nn) > 0 ? std::sqrt(nn) : 1.0;
            for (int d = 0; d < D; ++d) {u[r][d] /= nn;}
          }
        }
        for (size_t i = 0; i < cl.n; ++i) {
          double t[2] = {sc * rng.uniform(-1.0, 1.0), sc * rng.uniform(-1.0, 1.0)};
          for (int d = 0; d < D; ++d) {
            double v = centre[d];
            for (int r = 0; r < rank; ++r) {v += t[r] * u[r][d];}   // axis-aligned: other coordinates stay exactly centre[d]
            cl.x[i * D + d] = v;
          }
        }
        c.label(axis ? "degenerate:axis-aligned(zero-extent box side)" : "degenerate:oblique");
        break;
      }
    default: {   // TINY
        if (c.s.flag("tiny_lattice")) {latticeFill();} else {uniformFill();}
      }
  }
  for (int d = 0; d < D; ++d) {
    cl.lo[d] = cl.hi[d] = cl.x[d];
    for (size_t i = 1; i < cl.n; ++i) {
      cl.lo[d] = std::min(cl.lo[d], cl.x[i * D + d]);
      cl.hi[d] = std::max(cl.hi[d], cl.x[i * D + d]);
    }
  }
  return cl;
}

std::vector<Query> genQueries(vf::Ctx & c, const Cloud & cl)
{
  const int D = cl.dim;
  const size_t kmax = std::min<size_t>(cl.n, 50);
  int nq = static_cast<int>(c.s.i("n_queries", 1, 30));
  vf::Rng rng(c.s.seed("query_seed"));
  double ext[3], diag = 0;
  for (int d = 0; d < D; ++d) {ext[d] = cl.hi[d] - cl.lo[d]; diag += ext[d] * ext[d];}
  diag = std::sqrt(diag);
  const double len = std::max(diag, 1e-3 * cl.scale);   // degenerate boxes: still move a sensible distance
  std::vector<Query> qs;
  for (int j = 0; j < nq; ++j) {
    Query q;
    q.mode = static_cast<int>(c.s.pick("q_mode", {4, 2, 2, 3, 3, 2, 2, 3}));
    if (q.mode == Q_PREVIOUS_NUDGED && j == 0) {q.mode = Q_INSIDE;}
    size_t kc = c.s.pick("q_k_class", {1, 2, 1});
    q.k = (kc == 0) ? 1 : (kc == 2 ? kmax : static_cast<size_t>(c.s.i("q_k", 1, static_cast<int64_t>(kmax))));
    double inside[3];
    for (int d = 0; d < D; ++d) {inside[d] = rng.uniform(cl.lo[d], cl.hi[d]);}
    size_t pi = rng.below(cl.n);
    switch (q.mode) {
      case Q_INSIDE:
        for (int d = 0; d < D; ++d) {q.q[d] = inside[d];}
        break;
      case Q_PREVIOUS_NUDGED: {
          // almost the previous query (relative 1e-9 .. 1e-5, or exactly the same): consecutive queries of a scan
          double rel = (rng.below(5) == 0) ? 0.0 : std::pow(10.0, -rng.uniform(5.0, 9.0));
          double nrm = 0;
          for (int d = 0; d < D; ++d) {nrm += qs.back().q[d] * qs.back().q[d];}
          nrm = std::sqrt(nrm);
          for (int d = 0; d < D; ++d) {q.q[d] = qs.back().q[d] + rel * nrm * rng.uniform(-1.0, 1.0);}
          q.far = qs.back().far;
          break;
        }
      case Q_ON_POINT:
        for (int d = 0; d < D; ++d) {q.q[d] = cl.x[pi * D + d];}
        break;
      case Q_NEAR_POINT: {
          double r = cl.scale * std::pow(10.0, -rng.uniform(1.0, 6.0));
          for (int d = 0; d < D; ++d) {q.q[d] = cl.x[pi * D + d] + r * rng.uniform(-1.0, 1.0);}
          break;
        }
      case Q_FAR_DIAG: {
          double f = std::pow(10.0, rng.uniform(0.0, 2.0));
          double dir[3], nn = 0;
          for (int d = 0; d < D; ++d) {dir[d] = rng.gauss(); nn += dir[d] * dir[d];}
          nn = std::sqrt(nn) > 0 ? std::sqrt(nn) : 1.0;
          for (int d = 0; d < D; ++d) {q.q[d] = 0.5 * (cl.lo[d] + cl.hi[d]) + dir[d] / nn * f * len;}
          q.far = true;
          break;
        }
      case Q_FAR_AXIS: {
          // outside along one axis only (inside the box's range on the others): exercises the per-dimension box distances
          double f = std::pow(10.0, rng.uniform(-1.0, 2.0));
          int a = static_cast<int>(rng.below(D));
          bool high = rng.below(2) == 1;
          for (int d = 0; d < D; ++d) {q.q[d] = inside[d];}
          q.q[a] = high ? cl.hi[a] + f * len : cl.lo[a] - f * len;
          q.far = true;
          break;
        }
      case Q_JUST_OUTSIDE: {
          int a = static_cast<int>(rng.below(D));
          bool high = rng.below(2) == 1;
          double r = len * std::pow(10.0, -rng.uniform(0.0, 6.0));
          for (int d = 0; d < D; ++d) {q.q[d] = inside[d];}
          q.q[a] = high ? cl.hi[a] + r : cl.lo[a] - r;
          break;
        }
      default: {   // Q_CELL: lattice clouds: node / edge midpoint / cell centre (exact ties); other clouds: midpoint of two points
          if (cl.lattice) {
            for (int d = 0; d < D; ++d) {
              q.q[d] = cl.latOrigin[d] + (static_cast<double>(rng.range(-1, cl.latM)) + (rng.below(2) ? 0.5 : 0.0)) * cl.step;
            }
          } else {
            size_t pj = rng.below(cl.n);
            for (int d = 0; d < D; ++d) {q.q[d] = 0.5 * (cl.x[pi * D + d] + cl.x[pj * D + d]);}
          }
        }
    }
    qs.push_back(q);
  }
  return qs;
}

// ------------------------------------------------------------------------------------------------
// oracle
// ------------------------------------------------------------------------------------------------
struct Seen
{
  bool tieAtBoundary = false, tieInside = false, onPoint = false;
};

template<class S>
LD tolOf(LD v)
{
  return 16.0L * static_cast<LD>(std::numeric_limits<S>::epsilon()) * v + 8.0L * static_cast<LD>(std::numeric_limits<S>::min());
}

template<class PT>
void checkQuery(
  vf::Ctx & c, const KdTree<PT> & tree, const PT & q, size_t n, size_t k, int qi,
  const std::vector<LD> & t,       // brute-force squared distance of every point
  const std::vector<LD> & sorted)  // the min(n,k+1) smallest, ascending
{
  typedef typename PT::Scalar S;
  const LD eps = std::numeric_limits<S>::epsilon();
  const char * tn = Name<PT>::get();

  // ---- nearest ----
  size_t idx = std::numeric_limits<size_t>::max();
  S d = std::numeric_limits<S>::quiet_NaN();
  tree.findNearestNeighbor(q, idx, d);
  c.check(idx < n, vf::fmt("%s query#%d: findNearestNeighbor returned index %zu, set has %zu points", tn, qi, idx, n));
  c.check(std::isfinite(d) && d >= 0, vf::fmt("%s query#%d: findNearestNeighbor returned squared distance %g", tn, qi, static_cast<double>(d)));
  {
    LD own = t[idx], best = sorted[0];
    LD eo = fabsl(static_cast<LD>(d) - own), eb = fabsl(static_cast<LD>(d) - best);
    if (own > 0) {c.maxStat(StatNames<S>::own(), static_cast<double>(eo / (eps * own)));}
    if (best > 0) {c.maxStat(StatNames<S>::rank(), static_cast<double>(eb / (eps * best)));}
    c.check(eo <= tolOf<S>(own),
      vf::fmt("%s query#%d (n=%zu): nearest: reported squared distance %.17g does not belong to reported index %zu (brute force %.17Lg)",
      tn, qi, n, static_cast<double>(d), idx, own));
    c.check(eb <= tolOf<S>(best),
      vf::fmt("%s query#%d (n=%zu): nearest: reported index %zu at squared distance %.17g, but the minimal squared distance is %.17Lg",
      tn, qi, n, idx, static_cast<double>(d), best));
  }

  // ---- k nearest ----
  std::vector<size_t> idxs(k, std::numeric_limits<size_t>::max());
  std::vector<S> ds(k, std::numeric_limits<S>::quiet_NaN());
  tree.findNearestNeighbors(q, k, idxs, ds);
  c.check(idxs.size() == k && ds.size() == k, vf::fmt("%s query#%d: k-nearest resized its output vectors", tn, qi));
  for (size_t j = 0; j < k; ++j) {
    c.check(idxs[j] < n, vf::fmt("%s query#%d (n=%zu,k=%zu): k-nearest entry %zu has index %zu", tn, qi, n, k, j, idxs[j]));
    c.check(std::isfinite(ds[j]) && ds[j] >= 0,
      vf::fmt("%s query#%d (n=%zu,k=%zu): k-nearest entry %zu has squared distance %g", tn, qi, n, k, j, static_cast<double>(ds[j])));
    for (size_t i = 0; i < j; ++i) {
      c.check(idxs[i] != idxs[j], vf::fmt("%s query#%d (n=%zu,k=%zu): index %zu reported twice (entries %zu and %zu)", tn, qi, n, k, idxs[j], i, j));
    }
    if (j > 0) {
      c.check(ds[j] >= ds[j - 1],
        vf::fmt("%s query#%d (n=%zu,k=%zu): distances not ascending: entry %zu = %.17g after %.17g", tn, qi, n, k, j,
        static_cast<double>(ds[j]), static_cast<double>(ds[j - 1])));
    }
    LD own = t[idxs[j]], want = sorted[j];
    LD eo = fabsl(static_cast<LD>(ds[j]) - own), ew = fabsl(static_cast<LD>(ds[j]) - want);
    if (own > 0) {c.maxStat(StatNames<S>::own(), static_cast<double>(eo / (eps * own)));}
    if (want > 0) {c.maxStat(StatNames<S>::rank(), static_cast<double>(ew / (eps * want)));}
    c.check(eo <= tolOf<S>(own),
      vf::fmt("%s query#%d (n=%zu,k=%zu): entry %zu: reported squared distance %.17g does not belong to reported index %zu (brute force %.17Lg)",
      tn, qi, n, k, j, static_cast<double>(ds[j]), idxs[j], own));
    c.check(ew <= tolOf<S>(want),
      vf::fmt("%s query#%d (n=%zu,k=%zu): entry %zu (index %zu) has squared distance %.17g, the %zu-th smallest squared distance is %.17Lg",
      tn, qi, n, k, j, idxs[j], static_cast<double>(ds[j]), j + 1, want));
  }
}

template<class S, int DIM>
void runScalar(vf::Ctx & c, const Cloud & cl, const std::vector<Query> & qs, Seen & seen)
{
  typedef Eigen::Matrix<S, DIM, 1> Cart;
  typedef typename HomOf<S, DIM>::type Hom;
  const size_t n = cl.n;
  std::vector<S> xs(n * DIM);
  for (size_t i = 0; i < n * DIM; ++i) {xs[i] = static_cast<S>(cl.x[i]);}
  PointSet<Cart> pc(n);
  PointSet<Hom> ph(n);
  for (size_t i = 0; i < n; ++i) {
    pc[i] = makePoint<Cart>(&xs[i * DIM], DIM);
    ph[i] = makePoint<Hom>(&xs[i * DIM], DIM);
  }
  KdTree<Cart> tc(pc);
  KdTree<Hom> th(ph);

  std::vector<LD> t(n), sorted;
  int qi = 0;
  for (const Query & q : qs) {
    S qsx[3];
    for (int d = 0; d < DIM; ++d) {qsx[d] = static_cast<S>(q.q[d]);}
    for (size_t i = 0; i < n; ++i) {
      LD acc = 0;
      for (int d = 0; d < DIM; ++d) {
        LD df = static_cast<LD>(qsx[d]) - static_cast<LD>(xs[i * DIM + d]);
        acc += df * df;
      }
      t[i] = acc;
    }
    const size_t m = std::min(n, q.k + 1);
    sorted = t;
    std::partial_sort(sorted.begin(), sorted.begin() + m, sorted.end());
    sorted.resize(m);
    if (m > q.k && sorted[q.k] == sorted[q.k - 1]) {seen.tieAtBoundary = true;}
    for (size_t j = 1; j < std::min(m, q.k); ++j) {if (sorted[j] == sorted[j - 1]) {seen.tieInside = true;}}
    if (sorted[0] == 0) {seen.onPoint = true;}
    checkQuery<Cart>(c, tc, makePoint<Cart>(qsx, DIM), n, q.k, qi, t, sorted);
    checkQuery<Hom>(c, th, makePoint<Hom>(qsx, DIM), n, q.k, qi, t, sorted);
    ++qi;
  }
}

void knn(vf::Ctx & c)
{
  Cloud cl = genCloud(c);
  std::vector<Query> qs = genQueries(c, cl);
  bool far = false;
  for (const Query & q : qs) {far = far || q.far;}
  c.labelIf(far, "far-query");
  c.labelIf(cl.exactDuplicates, "duplicates");
  c.labelIf(cl.n <= 10, "tiny");
  c.labelIf(cl.n > 1000, "n>1000");
  c.commit();

  Seen seen;
  if (cl.dim == 2) {
    runScalar<double, 2>(c, cl, qs, seen);
    runScalar<float, 2>(c, cl, qs, seen);
  } else {
    runScalar<double, 3>(c, cl, qs, seen);
    runScalar<float, 3>(c, cl, qs, seen);
  }
  c.labelIf(seen.tieAtBoundary || seen.tieInside, "ties");
  c.labelIf(seen.tieAtBoundary, "ties-at-the-k-th-place");
  c.labelIf(seen.onPoint, "query-on-a-point(d=0)");
  c.nontrivial(cl.n > 10 || seen.tieAtBoundary || seen.tieInside);
}

const std::vector<vf::Sub> kSubs = {
  {"knn", knn,
    "cloud of n in [1,5000] points (n grows with the rapidcheck size; mode tiny: n in [1,10], smaller than one leaf) in 2D or 3D, "
    "scale log-uniform in [1e-2,1e3], centred at the origin or up to 1000 extents away; modes uniform box, 1..8 Gaussian clusters, "
    "dyadic lattice (2..12 nodes per axis, random nodes with repetition: exact ties and duplicates), exact duplicates of n/f base "
    "points, collinear/coplanar (axis-aligned = zero-extent bounding-box side, or oblique), tiny. 1..30 queries: inside the box, on a "
    "point, near a point (1e-1..1e-6 scale), far along a random direction (1..100 box diagonals), far along one axis, just outside a "
    "face, lattice node/edge/cell centre or midpoint of two points; k = 1, min(n,50) or uniform in between. Every cloud is run on the "
    "four point types of its dimension (float/double x Cartesian/homogeneous with unit last coordinate). Non-trivial: n > 10 (more "
    "than one leaf) or exact ties among the k+1 smallest brute-force distances of some query."},
};

}  // namespace

VF_HARNESS(kSubs)
