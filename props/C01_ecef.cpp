// C01 - ECEF <-> geodetic conversion is an accurate bijection near the Earth
#include "vf_main.hpp"

#include <Eigen/Geometry>
#include "romea_core_common/geodesy/ECEFConverter.hpp"

using romea::core::ECEFConverter;
using romea::core::EarthEllipsoid;
using romea::core::GeodeticCoordinates;

namespace {

const double PI = 3.14159265358979323846;
const double LAT_MAX = 89.9 * PI / 180.0;

struct Geo {double lat, lon, h; bool specialMeridian = false;};
struct Ell {double a, b; int kind;};

Ell genEllipsoid(vf::Ctx & c)
{
  size_t k = c.s.pick("ellipsoid", {4, 1, 1, 1, 3, 1});
  Ell e{6378137.0, 6356752.314, static_cast<int>(k)};
  switch (k) {
    case 0: break;                                                     // GRS80 (library default)
    case 1: e.a = 6378249.2; e.b = 6356515.0; break;                   // Clarke 1880 IGN
    case 2: e.a = 6378388.0; e.b = 6356911.9461; break;                // International 1924
    case 3: e.a = c.s.r("sphere_a", 6378137.0 * 0.999, 6378137.0 * 1.001); e.b = e.a; break;
    default: {
        e.a = c.s.r("a", 6378137.0 * 0.999, 6378137.0 * 1.001);
        double f = c.s.r("f", 0.0, 1.0 / 290.0);
        e.b = e.a * (1.0 - f);
      }
  }
  if (k == 5) {
    // almost a sphere: flattening 1e-3 .. 1e-12 (log-uniform) - "nearly spherical" is not "spherical"
    e.a = c.s.r("a", 6378137.0 * 0.999, 6378137.0 * 1.001);
    e.b = e.a * (1.0 - std::pow(10.0, -c.s.uni("f_exp", 3.0, 12.0)));
  }
  const char * names[] = {"GRS80", "clarke1880", "intl1924", "sphere", "random-ellipsoid", "nearly-spherical(f=1e-3..1e-12)"};
  c.label(names[k]);
  if (k != 0) {c.nontrivial();}
  return e;
}

Geo genGeo(vf::Ctx & c)
{
  Geo g;
  // latitude: boundary-biased over the whole quantifier
  g.lat = c.s.r("lat", -LAT_MAX, LAT_MAX);
  // longitude: uniform / packed around the antimeridian / special meridians
  size_t lc = c.s.pick("lon_class", {4, 3, 2});
  if (lc == 0) {
    g.lon = c.s.r("lon", -PI, PI);
  } else if (lc == 1) {
    bool east = c.s.flag("lon_east");
    g.lon = c.s.near("lon", east ? PI : -PI, 5.0, 13.0, -PI, PI);
  } else {
    size_t m = c.s.pick("meridian", {1, 1, 1});
    double x = (m == 0) ? 0.0 : (m == 1 ? PI / 2 : -PI / 2);
    g.lon = c.s.near("lon", x, 5.0, 15.0, -PI, PI);
  }
  size_t hc = c.s.pick("h_class", {1, 3});
  g.h = (hc == 0) ? 0.0 : c.s.r("h", -11000.0, 100000.0);
  g.specialMeridian = lc == 2;
  return g;
}

// (drawn after every older draw so that older tapes stay replayable) magnitudes that a draw over the whole range
// practically never produces: a latitude within 1e-2 .. 1e-12 rad of the equator, a height of a millimetre to 100 m
void maybeSmallMagnitudes(vf::Ctx & c, Geo & g)
{
  size_t sm = c.s.pick("small_magnitude_class", {8, 1, 1, 1});
  if (sm == 1 || sm == 3) {g.lat = (c.s.flag("small_lat_south") ? -1.0 : 1.0) * std::pow(10.0, -c.s.uni("small_lat_exp", 2.0, 12.0));}
  if (sm == 2 || sm == 3) {g.h = (c.s.flag("small_h_negative") ? -1.0 : 1.0) * std::pow(10.0, c.s.uni("small_h_exp", -3.0, 2.0));}
}

void labelGeo(vf::Ctx & c, const Geo & g)
{
  if (PI - std::fabs(g.lon) < 1e-6) {c.label("antimeridian(<1e-6rad)"); c.nontrivial();}
  if (std::fabs(g.lon) == PI) {c.label("antimeridian-exact");}
  if (std::fabs(g.lat) > 85.0 * PI / 180.0) {c.label("high-lat(>85deg)"); c.nontrivial();}
  if (std::fabs(g.lat) <= 1e-2 && g.lat != 0) {c.label("latitude-within-1e-2rad-of-the-equator");}
  if (g.h != 0 && std::fabs(g.h) <= 100.0) {c.label("height-within-100m-of-the-ellipsoid");}
  if (g.h < 0) {c.label("negative-height"); c.nontrivial();}
  if (g.specialMeridian) {c.label("prime/90deg-meridian"); c.nontrivial();}
  if (g.h > 0) {c.nontrivial();}
}

// reference forward conversion in long double, from a and b only
void refForward(const Ell & e, const Geo & g, long double out[3], long double n[3], long double p0[3])
{
  long double a = e.a, b = e.b;
  long double e2 = (a * a - b * b) / (a * a);
  long double sl = sinl(g.lat), cl = cosl(g.lat), so = sinl(g.lon), co = cosl(g.lon);
  long double N = a / sqrtl(1.0L - e2 * sl * sl);
  n[0] = cl * co; n[1] = cl * so; n[2] = sl;
  p0[0] = N * cl * co; p0[1] = N * cl * so; p0[2] = N * (1.0L - e2) * sl;
  for (int k = 0; k < 3; ++k) {out[k] = p0[k] + static_cast<long double>(g.h) * n[k];}
}

// how the converter under test comes into being: directly, or by copy assignment over / copy construction from
// another converter (value semantics: a copy is the same converter)
ECEFConverter makeConverter(const Ell & e, int how)
{
  if (how == 0) {return (e.kind == 0) ? ECEFConverter() : ECEFConverter(EarthEllipsoid(e.a, e.b));}
  EarthEllipsoid wanted = (e.kind == 0) ? EarthEllipsoid::GRS80 : EarthEllipsoid(e.a, e.b);
  if (how == 1) {
    ECEFConverter conv(EarthEllipsoid(6378249.2, 6356515.0));   // starts life on another ellipsoid ...
    (void)conv.toWGS84(Eigen::Vector3d(4.2e6, 1.7e5, 4.8e6));   // ... and has been used
    conv = ECEFConverter(wanted);                                // then takes over the wanted one by assignment
    return conv;
  }
  ECEFConverter * src = new ECEFConverter(wanted);
  (void)src->toWGS84(Eigen::Vector3d(4.2e6, 1.7e5, 4.8e6));
  ECEFConverter copy(*src);                                      // copy constructed, source destroyed afterwards
  delete src;
  return copy;
}

void checkGeodeticRange(vf::Ctx & c, const GeodeticCoordinates & r, const char * what)
{
  c.check(std::isfinite(r.latitude) && std::isfinite(r.longitude) && std::isfinite(r.altitude),
    vf::fmt("%s: non-finite geodetic result lat=%g lon=%g alt=%g", what, r.latitude, r.longitude, r.altitude));
  c.check(r.latitude >= -PI / 2 && r.latitude <= PI / 2,
    vf::fmt("%s: latitude %.17g outside [-pi/2,pi/2]", what, r.latitude));
  c.check(r.longitude >= -PI && r.longitude <= PI,
    vf::fmt("%s: longitude %.17g outside [-pi,pi]", what, r.longitude));
}

// geodetic -> ECEF (definition + reference) -> geodetic (round trip)
void forwardRoundTrip(vf::Ctx & c)
{
  Ell e = genEllipsoid(c);
  Geo g = genGeo(c);
  int how = static_cast<int>(c.s.pick("converter_made_by", {3, 1, 1}));
  if (how != 0) {c.label("converter-is-a-copy(assigned/constructed)");}
  maybeSmallMagnitudes(c, g);
  labelGeo(c, g);
  c.commit();

  ECEFConverter conv = makeConverter(e, how);
  GeodeticCoordinates in = romea::core::makeGeodeticCoordinates(g.lat, g.lon, g.h);
  Eigen::Vector3d P = conv.toECEF(in);
  c.check(P.allFinite(), "toECEF returned a non-finite vector");

  // (i) definition: surface point on the ellipsoid, gradient parallel to the normal, offset h*n
  GeodeticCoordinates in0 = romea::core::makeGeodeticCoordinates(g.lat, g.lon, 0.0);
  Eigen::Vector3d P0 = conv.toECEF(in0);
  long double a = e.a, b = e.b;
  long double q = (static_cast<long double>(P0[0]) * P0[0] + static_cast<long double>(P0[1]) * P0[1]) / (a * a) +
    static_cast<long double>(P0[2]) * P0[2] / (b * b);
  double eqres = static_cast<double>(fabsl(q - 1.0L));
  c.maxStat("ellipsoid-equation-residual", eqres);
  VF_CHECK(c, eqres <= 1e-9, "surface point violates the ellipsoid equation by %.3g", eqres);
  Eigen::Vector3d nrm(std::cos(g.lat) * std::cos(g.lon), std::cos(g.lat) * std::sin(g.lon), std::sin(g.lat));
  Eigen::Vector3d grad(P0[0] / (e.a * e.a), P0[1] / (e.a * e.a), P0[2] / (e.b * e.b));
  double par = (grad.normalized().cross(nrm)).norm();
  c.maxStat("gradient-vs-normal(sin angle)", par);
  VF_CHECK(c, par <= 1e-9, "ellipsoid gradient at the surface point is not parallel to n(lat,lon): sin=%.3g", par);
  c.check(grad.dot(nrm) > 0, "surface normal points inward");
  double off = (P - P0 - g.h * nrm).norm();
  c.maxStat("height-offset-residual[m]", off);
  VF_CHECK(c, off <= 1e-6, "toECEF(h) - toECEF(0) differs from h*n by %.3g m", off);

  // (v) long-double reference
  long double R[3], n[3], p0[3];
  refForward(e, g, R, n, p0);
  double dref = std::sqrt(
    static_cast<double>((P[0] - R[0]) * (P[0] - R[0]) + (P[1] - R[1]) * (P[1] - R[1]) + (P[2] - R[2]) * (P[2] - R[2])));
  c.maxStat("forward-vs-longdouble[m]", dref);
  VF_CHECK(c, dref <= 1e-6, "toECEF differs from the long-double reference by %.3g m", dref);

  // (ii) round trip
  GeodeticCoordinates back = conv.toWGS84(P);
  checkGeodeticRange(c, back, "toWGS84(toECEF(g))");
  double dlat = std::fabs(back.latitude - g.lat);
  double dlon = vf::angDiff(back.longitude, g.lon);
  double dh = std::fabs(back.altitude - g.h);
  c.maxStat("roundtrip-dlat[rad]", dlat);
  c.maxStat("roundtrip-dlon[rad]", dlon);
  c.maxStat("roundtrip-dh[m]", dh);
  VF_CHECK(c, dlat <= 1e-9, "round trip latitude error %.3g rad (lat=%.17g lon=%.17g h=%.17g)", dlat, g.lat, g.lon, g.h);
  VF_CHECK(c, dlon <= 1e-9, "round trip longitude error %.3g rad (lat=%.17g lon=%.17g h=%.17g) got %.17g", dlon, g.lat, g.lon, g.h, back.longitude);
  VF_CHECK(c, dh <= 1e-3, "round trip height error %.3g m (lat=%.17g lon=%.17g h=%.17g)", dh, g.lat, g.lon, g.h);
}

// ECEF -> geodetic -> ECEF
void reverseRoundTrip(vf::Ctx & c)
{
  Ell e = genEllipsoid(c);
  size_t mode = c.s.pick("xyz_mode", {4, 1});
  Eigen::Vector3d X;
  Geo src{0, 0, 0};
  bool negzero = false;
  if (mode == 0) {
    src = genGeo(c);
  } else {
    // exact half-plane Y = +-0, X < 0 : longitude exactly 180 degrees
    double lat = c.s.r("lat", -LAT_MAX, LAT_MAX);
    double h = c.s.r("h", -11000.0, 100000.0);
    negzero = c.s.flag("neg_zero_y");
    src = Geo{lat, PI, h};
  }
  int how = static_cast<int>(c.s.pick("converter_made_by", {3, 1, 1}));
  if (how != 0) {c.label("converter-is-a-copy(assigned/constructed)");}
  maybeSmallMagnitudes(c, src);
  {
    long double R[3], n[3], p0[3];
    refForward(e, src, R, n, p0);
    if (mode == 0) {
      X = Eigen::Vector3d(static_cast<double>(R[0]), static_cast<double>(R[1]), static_cast<double>(R[2]));
      labelGeo(c, src);
    } else {
      X = Eigen::Vector3d(static_cast<double>(R[0]), negzero ? -0.0 : 0.0, static_cast<double>(R[2]));
      c.label("half-plane-Y=0,X<0");
      c.nontrivial();
    }
  }
  c.commit();
  ECEFConverter conv = makeConverter(e, how);
  GeodeticCoordinates g = conv.toWGS84(X);
  checkGeodeticRange(c, g, "toWGS84(X)");
  Eigen::Vector3d Y = conv.toECEF(g);
  double d = (Y - X).norm();
  c.maxStat("ecef-roundtrip[m]", d);
  VF_CHECK(c, d <= 1e-3, "ECEF->geodetic->ECEF differs by %.6g m at X=(%.17g,%.17g,%.17g), geodetic (%.17g,%.17g,%.17g)",
    d, X[0], X[1], X[2], g.latitude, g.longitude, g.altitude);
}

const std::vector<vf::Sub> kSubs = {
  {"forward_roundtrip", forwardRoundTrip,
    "latitude boundary-biased in [-89.9,89.9] deg; longitude uniform in [-pi,pi], packed around +-pi (pi-10^-k, k=5..13, "
    "+-ulps, +-pi exactly) or around 0/+-90 deg; height 0 or in [-11 km,100 km]; ellipsoid GRS80 / Clarke1880IGN / "
    "Intl1924 / sphere / random (a within 0.1%, f in [0,1/290]). Non-trivial: antimeridian(<1e-6 rad), |lat|>85 deg, "
    "height != 0, special meridian, or non-GRS80 ellipsoid."},
  {"reverse_roundtrip", reverseRoundTrip,
    "Cartesian input = long-double reference image of a generated geodetic point (same generator), or the exact "
    "half-plane Y=+-0, X<0. Non-trivial: same rule, half-plane cases always."},
};

}  // namespace

VF_HARNESS(kSubs)
