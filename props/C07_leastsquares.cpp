// C07 - Linear least-squares solver returns the minimiser of the current problem only
//
// One sub per scalar type.  A case is a *history*: 2..8 problems (J, Y [, W]) of varying data size solved with ONE
// LeastSquares<S> object (buffers grow, never shrink; rows past the current size are poisoned on purpose), each
// problem also solved with a freshly constructed object.
//
// Oracles per problem (reference arithmetic: x87 long double, written here, no Eigen):
//   (a) normal equations:  || J^T (J x0 - Y) || <= K eps_S * bound,  x0 = A^-1 (x - b)   (weighted: J -> WJ, Y -> WY)
//   (b) affine preconditioner: x = A x_ref + b, x_ref = long-double solution of the normal equations
//   (c) SVD path ~ Cholesky path
//   (d) history: result of the reused object == result of a fresh object, bit for bit (estimate and covariance)
//   (e) covariance = A (J^T J)^-1 A^T var, only checked for symmetric A (identity / scalar / diagonal)
//
// Domain (DESIGN section 3): estimate size fixed per object; J well scaled (singular values in [1e-2,1e4] double,
// [1e-1,1e2] float) with condition number < 1e6 (double) / 1e3 (float) - the solver's pseudo-inverse skips singular
// values of J^T J <= eps *absolutely*; weights in [0.1,10]; preconditioner A invertible with cond(A) <= 100.
//
// Tolerance (derivation): the solver forms An = fl(J^T J), bn = fl(J^T Y) (|dAn| <= m eps |J|^T|J|, |dbn| <= m eps
// |J|^T|Y|), an explicit inverse X of An by LDLT or Jacobi SVD (|| An X - I || <= c p eps cond(An)) and
// x = fl(A X bn + b).  Hence for x0 = A^-1 (x - b):
//   || J^T(J x0 - Y) || <= eps [ p cond(A) kappa^2 ||J^T Y|| + m ||J||_F^2 ||x0|| + m ||J||_F ||Y||
//                               + (p+1) ||J||_F^2 ( cond(A) ||x0|| + ||A^-1|| ||b|| ) ]  * K,   kappa = cond(J).
// K = 8; measured worst residual/bracket over 2.6e6 histories: 0.48 (the small cases m = p = 1..2 dominate, where the
// bracket counts ~5 roundings and ~2 occur), i.e. a 17x margin; reported as maxStat (see props.json tolerances).
#include "vf_main.hpp"

#include <Eigen/Core>
#include <Eigen/SVD>
#include <algorithm>
#include <memory>
#include "romea_core_common/regression/leastsquares/LeastSquares.hpp"

namespace {

typedef long double LD;
const double K_TOL = 8.0;

// ------------------------------------------------------------------------------------------------
// long-double reference linear algebra (row-major std::vector)
// ------------------------------------------------------------------------------------------------
// eigenvalues (ascending) of a symmetric n x n matrix, cyclic Jacobi
std::vector<LD> symEig(std::vector<LD> a, int n)
{
  for (int sweep = 0; sweep < 80; ++sweep) {
    LD off = 0, dg = 0;
    for (int i = 0; i < n; ++i) {
      dg += a[i * n + i] * a[i * n + i];
      for (int j = i + 1; j < n; ++j) {off += a[i * n + j] * a[i * n + j];}
    }
    if (off <= 1e-42L * dg || off == 0) {break;}
    for (int p = 0; p < n - 1; ++p) {
      for (int q = p + 1; q < n; ++q) {
        LD apq = a[p * n + q];
        if (apq == 0) {continue;}
        LD theta = (a[q * n + q] - a[p * n + p]) / (2 * apq);
        LD t = (theta >= 0 ? 1.0L : -1.0L) / (fabsl(theta) + sqrtl(theta * theta + 1));
        LD cs = 1 / sqrtl(t * t + 1), sn = t * cs;
        for (int k = 0; k < n; ++k) {
          LD akp = a[k * n + p], akq = a[k * n + q];
          a[k * n + p] = cs * akp - sn * akq;
          a[k * n + q] = sn * akp + cs * akq;
        }
        for (int k = 0; k < n; ++k) {
          LD apk = a[p * n + k], aqk = a[q * n + k];
          a[p * n + k] = cs * apk - sn * aqk;
          a[q * n + k] = sn * apk + cs * aqk;
        }
      }
    }
  }
  std::vector<LD> ev(n);
  for (int i = 0; i < n; ++i) {ev[i] = a[i * n + i];}
  std::sort(ev.begin(), ev.end());
  return ev;
}

// solves A X = B (A n x n, B n x k), Gaussian elimination with partial pivoting; false if singular
bool solveLD(std::vector<LD> a, std::vector<LD> b, int n, int k, std::vector<LD> & x)
{
  for (int c = 0; c < n; ++c) {
    int piv = c;
    for (int r = c + 1; r < n; ++r) {if (fabsl(a[r * n + c]) > fabsl(a[piv * n + c])) {piv = r;}}
    if (a[piv * n + c] == 0) {return false;}
    if (piv != c) {
      for (int j = 0; j < n; ++j) {std::swap(a[piv * n + j], a[c * n + j]);}
      for (int j = 0; j < k; ++j) {std::swap(b[piv * k + j], b[c * k + j]);}
    }
    for (int r = c + 1; r < n; ++r) {
      LD f = a[r * n + c] / a[c * n + c];
      if (f == 0) {continue;}
      for (int j = c; j < n; ++j) {a[r * n + j] -= f * a[c * n + j];}
      for (int j = 0; j < k; ++j) {b[r * k + j] -= f * b[c * k + j];}
    }
  }
  x.assign(n * k, 0);
  for (int j = 0; j < k; ++j) {
    for (int r = n - 1; r >= 0; --r) {
      LD s = b[r * k + j];
      for (int q = r + 1; q < n; ++q) {s -= a[r * n + q] * x[q * k + j];}
      x[r * k + j] = s / a[r * n + r];
    }
  }
  return true;
}

LD norm2(const std::vector<LD> & v)
{
  LD s = 0;
  for (LD e : v) {s += e * e;}
  return sqrtl(s);
}

// m x p matrix with orthonormal columns (column-major), Gaussian start + two Gram-Schmidt passes
void orthonormalColumns(std::vector<double> & U, int m, int p, vf::Rng & rng)
{
  U.assign(static_cast<size_t>(m) * p, 0.0);
  for (int c = 0; c < p; ++c) {
    double * uc = &U[static_cast<size_t>(c) * m];
    for (int r = 0; r < m; ++r) {uc[r] = rng.gauss();}
    for (int pass = 0; pass < 2; ++pass) {
      for (int k = 0; k < c; ++k) {
        const double * uk = &U[static_cast<size_t>(k) * m];
        double d = 0;
        for (int r = 0; r < m; ++r) {d += uk[r] * uc[r];}
        for (int r = 0; r < m; ++r) {uc[r] -= d * uk[r];}
      }
      double nn = 0;
      for (int r = 0; r < m; ++r) {nn += uc[r] * uc[r];}
      nn = std::sqrt(nn);
      if (nn < 1e-6) {  // (never for Gaussian data; keeps the routine total)
        for (int r = 0; r < m; ++r) {uc[r] = (r == c) ? 1.0 : 0.0;}
        nn = 1.0;
        pass = -1;
        continue;
      }
      for (int r = 0; r < m; ++r) {uc[r] /= nn;}
    }
  }
}

template<typename S> struct Dom;
template<> struct Dom<double>
{
  static constexpr double sLo = 1e-2, sHi = 1e4, condMax = 1e6;
  static double huge() {return 1e300;}
};
template<> struct Dom<float>
{
  static constexpr double sLo = 1e-1, sHi = 1e2, condMax = 1e3;
  static double huge() {return 1e30;}
};

enum Paths { SVD_ONLY = 0, CHOL_ONLY = 1, SVD_CHOL = 2, CHOL_SVD = 3 };
enum PreOp { PRE_KEEP = 0, PRE_A = 1, PRE_AB = 2 };
enum AKind { A_DIAG = 0, A_SCALAR = 1, A_GENERAL = 2 };

template<typename S>
struct Problem
{
  typedef Eigen::Matrix<S, Eigen::Dynamic, Eigen::Dynamic> Mat;
  typedef Eigen::Matrix<S, Eigen::Dynamic, 1> Vec;
  int m = 0;
  bool weighted = false;
  int paths = 0;
  int poison = 0;
  int preOp = PRE_KEEP;
  int aKind = A_DIAG;
  Mat J;       // as handed to the solver (un-weighted rows)
  Vec Y, W;
  Mat A;       // preconditioner to set (preOp != KEEP)
  Vec b;
  S var = 1;
  // reference quantities of the problem actually solved (J or WJ), long double
  std::vector<LD> Je, Ye;    // effective rows (weighted if weighted)
  std::vector<LD> JtJ, JtY, xref, inv;
  LD lmin = 0, lmax = 0, normJF = 0, normY = 0, normJtY = 0;
};

template<typename S>
struct PreModel
{
  typedef Eigen::Matrix<S, Eigen::Dynamic, Eigen::Dynamic> Mat;
  typedef Eigen::Matrix<S, Eigen::Dynamic, 1> Vec;
  bool everSet = false;
  bool symmetric = true;
  Mat A;
  Vec b;
  LD normA = 1, normAinv = 1, normB = 0;
};

// generate the content of one problem from direct draws (sizes, modes, condition) + a seeded stream (bulk)
template<typename S>
void genProblem(vf::Ctx & c, int p, Problem<S> & P)
{
  const int m = P.m;
  P.weighted = c.s.flag("weighted", 1, 3);
  P.paths = P.weighted ? 0 : static_cast<int>(c.s.pick("paths", {2, 2, 2, 1}));
  P.poison = static_cast<int>(c.s.pick("poison", {2, 3, 2, 1}));   // leftovers, NaN, huge, inf
  size_t jmode = c.s.pick("j_mode", {5, 2});   // prescribed SVD, small integers
  double kappa = 1, smax = 1;
  if (jmode == 0) {
    kappa = (p == 1) ? 1.0 : c.s.rlog("cond", 1.0, 0.9 * Dom<S>::condMax);
    smax = c.s.rlog("smax", Dom<S>::sLo * kappa * 1.05, 0.95 * Dom<S>::sHi);
  }
  size_t noise = c.s.pick("noise", {1, 1, 2, 2});   // consistent, 1e-8, 1e-2, 1 (relative to smax)
  vf::Rng rng(c.s.seed("content"));

  // effective matrix B (what the normal equations are built from)
  std::vector<double> B(static_cast<size_t>(m) * p);   // row-major
  if (jmode == 0) {
    std::vector<double> U, V, sig(p);
    orthonormalColumns(U, m, p, rng);
    orthonormalColumns(V, p, p, rng);
    for (int k = 0; k < p; ++k) {
      if (k == 0) {sig[k] = smax;} else if (k == p - 1) {sig[k] = smax / kappa;} else {
        sig[k] = smax / std::pow(kappa, rng.u());
      }
    }
    for (int r = 0; r < m; ++r) {
      for (int cc = 0; cc < p; ++cc) {
        double s = 0;
        for (int k = 0; k < p; ++k) {s += U[static_cast<size_t>(k) * m + r] * sig[k] * V[static_cast<size_t>(k) * p + cc];}
        B[static_cast<size_t>(r) * p + cc] = s;
      }
    }
  } else {
    // small integers, top p x p block strictly diagonally dominant => full column rank; scaled by a power of two
    // (exact) into the well-scaled band
    double fro = 0;
    for (int r = 0; r < m; ++r) {
      for (int cc = 0; cc < p; ++cc) {
        double v = static_cast<double>(rng.range(-3, 3));
        if (r == cc) {v += 3.0 * p + 2.0;}
        B[static_cast<size_t>(r) * p + cc] = v;
        fro += v * v;
      }
    }
    double sc = 1.0;
    while (std::sqrt(fro) * sc > 0.5 * Dom<S>::sHi) {sc *= 0.5;}
    for (double & v : B) {v *= sc;}
  }

  // weights, handed rows J = B / w
  P.J.resize(m, p);
  P.Y.resize(m);
  P.W = Problem<S>::Vec::Ones(m);
  std::vector<double> w(m, 1.0);
  if (P.weighted) {
    size_t wm = rng.below(4);
    double w0 = std::pow(10.0, rng.uniform(-1, 1)), w1 = std::pow(10.0, rng.uniform(-1, 1));
    for (int r = 0; r < m; ++r) {
      if (wm == 0) {w[r] = std::pow(10.0, rng.uniform(-1, 1));} else if (wm == 1) {w[r] = (rng.below(2) ? w0 : w1);} else if (wm == 2) {
        w[r] = (r % 2) ? 0.1 : 10.0;
      } else {w[r] = std::pow(2.0, static_cast<double>(rng.range(-3, 3)));}
      P.W(r) = static_cast<S>(w[r]);
    }
  }
  for (int r = 0; r < m; ++r) {
    for (int cc = 0; cc < p; ++cc) {
      P.J(r, cc) = static_cast<S>(B[static_cast<size_t>(r) * p + cc] / static_cast<double>(P.W(r)));
    }
  }
  // observations Y = J x* + noise
  std::vector<double> xs(p);
  for (int k = 0; k < p; ++k) {xs[k] = rng.uniform(-10, 10);}
  const double lvl[4] = {0.0, 1e-8, 1e-2, 1.0};
  double bnorm = 0;
  for (double v : B) {bnorm = std::max(bnorm, std::fabs(v));}
  for (int r = 0; r < m; ++r) {
    double y = 0;
    for (int cc = 0; cc < p; ++cc) {y += static_cast<double>(P.J(r, cc)) * xs[cc];}
    y += lvl[noise] * bnorm * rng.gauss() / static_cast<double>(P.W(r));
    P.Y(r) = static_cast<S>(y);
  }
  P.var = static_cast<S>(std::pow(10.0, rng.uniform(-2, 2)));

  // preconditioner operation
  P.preOp = static_cast<int>(c.s.pick("pre_op", {3, 2, 3}));
  if (P.preOp != PRE_KEEP) {
    P.aKind = static_cast<int>(c.s.pick("a_kind", {2, 1, 2}));
    P.A = Problem<S>::Mat::Zero(p, p);
    if (P.aKind == A_SCALAR) {
      double a = std::pow(10.0, rng.uniform(-1, 1)) * (rng.below(4) ? 1 : -1);
      for (int k = 0; k < p; ++k) {P.A(k, k) = static_cast<S>(a);}
    } else if (P.aKind == A_DIAG) {
      for (int k = 0; k < p; ++k) {P.A(k, k) = static_cast<S>(std::pow(10.0, rng.uniform(-1, 1)) * (rng.below(4) ? 1 : -1));}
    } else {
      std::vector<double> Q1, Q2;
      orthonormalColumns(Q1, p, p, rng);
      orthonormalColumns(Q2, p, p, rng);
      std::vector<double> d(p);
      for (int k = 0; k < p; ++k) {d[k] = std::pow(10.0, rng.uniform(-0.95, 0.95));}
      for (int r = 0; r < p; ++r) {
        for (int cc = 0; cc < p; ++cc) {
          double s = 0;
          for (int k = 0; k < p; ++k) {s += Q1[static_cast<size_t>(k) * p + r] * d[k] * Q2[static_cast<size_t>(k) * p + cc];}
          P.A(r, cc) = static_cast<S>(s);
        }
      }
    }
    P.b = Problem<S>::Vec::Zero(p);
    if (P.preOp == PRE_AB) {
      for (int k = 0; k < p; ++k) {P.b(k) = static_cast<S>(rng.uniform(-10, 10));}
    }
  }

  // ---- long-double reference of the problem actually solved: rows w_i J_i, w_i Y_i from the S values ----
  P.Je.assign(static_cast<size_t>(m) * p, 0);
  P.Ye.assign(m, 0);
  for (int r = 0; r < m; ++r) {
    LD wr = P.weighted ? static_cast<LD>(P.W(r)) : 1.0L;
    for (int cc = 0; cc < p; ++cc) {P.Je[static_cast<size_t>(r) * p + cc] = wr * static_cast<LD>(P.J(r, cc));}
    P.Ye[r] = wr * static_cast<LD>(P.Y(r));
  }
  P.JtJ.assign(p * p, 0);
  P.JtY.assign(p, 0);
  LD fj = 0, fy = 0;
  for (int r = 0; r < m; ++r) {
    const LD * row = &P.Je[static_cast<size_t>(r) * p];
    for (int i = 0; i < p; ++i) {
      for (int j = i; j < p; ++j) {P.JtJ[i * p + j] += row[i] * row[j];}
      P.JtY[i] += row[i] * P.Ye[r];
      fj += row[i] * row[i];
    }
    fy += P.Ye[r] * P.Ye[r];
  }
  for (int i = 0; i < p; ++i) {for (int j = 0; j < i; ++j) {P.JtJ[i * p + j] = P.JtJ[j * p + i];}}
  P.normJF = sqrtl(fj);
  P.normY = sqrtl(fy);
  P.normJtY = norm2(P.JtY);
  std::vector<LD> ev = symEig(P.JtJ, p);
  P.lmin = ev.front();
  P.lmax = ev.back();
}

template<typename S>
bool inDomain(const Problem<S> & P)
{
  if (!(P.lmin > 0)) {return false;}
  LD smin = sqrtl(P.lmin), smaxv = sqrtl(P.lmax);
  return smin >= Dom<S>::sLo && smaxv <= Dom<S>::sHi && smaxv / smin < Dom<S>::condMax;
}

template<typename M>
bool bitEqual(const M & a, const M & b)
{
  return a.rows() == b.rows() && a.cols() == b.cols() &&
         (a.size() == 0 || std::memcmp(a.data(), b.data(), sizeof(typename M::Scalar) * static_cast<size_t>(a.size())) == 0);
}

template<typename S>
struct Outcome
{
  typedef Eigen::Matrix<S, Eigen::Dynamic, Eigen::Dynamic> Mat;
  typedef Eigen::Matrix<S, Eigen::Dynamic, 1> Vec;
  std::vector<Vec> x;        // in call order
  std::vector<Mat> cov;
  std::vector<const char *> which;
};

template<typename S>
using Solver = romea::core::LeastSquares<S>;

// fills rows [0,m) the way the in-tree caller does (element-wise through getJ()/getY()), poisons the rest
template<typename S>
void fillAndSolve(vf::Ctx & c, Solver<S> & ls, const Problem<S> & P, int p, bool poisonRest, Outcome<S> & out, const std::string & who)
{
  auto & J = ls.getJ();
  auto & Y = ls.getY();
  auto & W = ls.getW();
  const int m = P.m;
  c.check(J.rows() >= m && J.cols() == p && Y.rows() >= m && W.rows() >= m,
    vf::fmt("%s: after setDataSize(%d) the buffers are J %dx%d, Y %d, W %d (estimate size %d)", who.c_str(), m,
    static_cast<int>(J.rows()), static_cast<int>(J.cols()), static_cast<int>(Y.rows()), static_cast<int>(W.rows()), p));
  for (int r = 0; r < m; ++r) {
    for (int k = 0; k < p; ++k) {J(r, k) = P.J(r, k);}
    Y(r) = P.Y(r);
  }
  if (P.weighted) {for (int r = 0; r < m; ++r) {W(r) = P.W(r);}}
  if (poisonRest && P.poison != 0) {
    S bad = (P.poison == 1) ? std::numeric_limits<S>::quiet_NaN() :
      (P.poison == 2 ? static_cast<S>(Dom<S>::huge()) : std::numeric_limits<S>::infinity());
    for (int r = m; r < J.rows(); ++r) {
      for (int k = 0; k < p; ++k) {J(r, k) = bad;}
    }
    for (int r = m; r < Y.rows(); ++r) {Y(r) = bad;}
    for (int r = m; r < W.rows(); ++r) {W(r) = bad;}
  }
  {
    // the read-only accessors show what was just written (entry by entry; poisoned rows may hold NaN)
    const Solver<S> & ro = ls;
    auto same = [](const auto & a, const auto & b) {
        return a.rows() == b.rows() && a.cols() == b.cols() &&
               ((a.array() == b.array()) || ((a.array() != a.array()) && (b.array() != b.array()))).all();
      };
    c.check(same(ro.getJ(), J) && same(ro.getY(), Y) && same(ro.getW(), W),
      who + ": the const getJ()/getY()/getW() do not show the content written through the non-const ones");
  }
  auto runPath = [&](bool svd) {
      typename Outcome<S>::Vec x = svd ? ls.estimateUsingSVD() : ls.estimateUsingCholeskyDecomposition();
      out.x.push_back(x);
      out.which.push_back(svd ? "SVD" : "Cholesky");
      out.cov.push_back(ls.computeEstimateCovariance(P.var));
    };
  if (P.weighted) {
    typename Outcome<S>::Vec x = ls.weightedEstimate();
    out.x.push_back(x);
    out.which.push_back("weighted");
    out.cov.push_back(ls.computeEstimateCovariance(P.var));
  } else {
    switch (P.paths) {
      case SVD_ONLY: runPath(true); break;
      case CHOL_ONLY: runPath(false); break;
      case SVD_CHOL: runPath(true); runPath(false); break;
      default: runPath(false); runPath(true); break;
    }
  }
}

template<typename S>
std::unique_ptr<Solver<S>> construct(int variant, int p, int m0)
{
  std::unique_ptr<Solver<S>> s;
  switch (variant) {
    case 0: s.reset(new Solver<S>(static_cast<size_t>(p))); break;
    case 1: s.reset(new Solver<S>()); s->setEstimateSize(static_cast<size_t>(p)); break;
    default: s.reset(new Solver<S>(static_cast<size_t>(p), static_cast<size_t>(m0))); break;
  }
  return s;
}

template<typename S>
void history(vf::Ctx & c)
{
  const double eps = vf::epsOf<S>();
  // ---------------- generation ----------------
  const int p = static_cast<int>(c.s.i("estimate_size", 1, 8));
  const int n = static_cast<int>(c.s.len("n_problems", 2, 8));
  const int ctor = static_cast<int>(c.s.pick("ctor", {2, 1, 1}));
  const int freshCtor = static_cast<int>(c.s.pick("fresh_ctor", {2, 1, 1, 1}));
  int m0 = p;
  if (ctor == 2) {m0 = static_cast<int>(c.s.len("ctor_data_size", p, 500));}
  const int forced = static_cast<int>(c.s.i("forced_shrink_at", 1, n - 1));

  std::vector<Problem<S>> probs(n);
  int prev = 0;
  bool anyShrink = false, shrinkPoison = false, weightedAfterShrink = false, cholOnlyAfter = false, bReset = false;
  bool sawAB = false, general = false, highCond = false, square = false, big = false;
  int bufRows = (ctor == 2) ? m0 : 0;
  for (int k = 0; k < n; ++k) {
    Problem<S> & P = probs[k];
    // data size: boundary class (m = p .. p+3), medium, large; the forced position is strictly smaller than its predecessor
    int lo = p, hi = 500;
    if (k == 0) {lo = std::min(p + 1, 500);}
    if (k == forced && prev > p) {hi = prev - 1;} else if (k == forced) {hi = p;}
    size_t mc = c.s.pick("m_class", {2, 3, 2});
    int top = (mc == 0) ? std::min(hi, lo + 3) : (mc == 1 ? std::min(hi, 40) : hi);
    if (top < lo) {top = lo;}
    P.m = (mc == 2) ? static_cast<int>(c.s.len("m", lo, top)) : static_cast<int>(c.s.i("m", lo, top));
    genProblem<S>(c, p, P);
    if (!inDomain(P)) {c.skip();}
    bool shrink = (k > 0 && P.m < prev);
    bool hasRest = P.m < std::max(bufRows, P.m);
    anyShrink = anyShrink || shrink;
    shrinkPoison = shrinkPoison || (hasRest && P.poison != 0);
    weightedAfterShrink = weightedAfterShrink || (shrink && P.weighted);
    cholOnlyAfter = cholOnlyAfter || (k > 0 && !P.weighted && P.paths == CHOL_ONLY);
    if (P.preOp == PRE_A && sawAB) {bReset = true;}
    if (P.preOp == PRE_AB) {sawAB = true;}
    if (P.preOp == PRE_A) {sawAB = false;}
    general = general || (P.preOp != PRE_KEEP && P.aKind == A_GENERAL);
    highCond = highCond || (P.lmax / P.lmin >= static_cast<LD>(Dom<S>::condMax) * Dom<S>::condMax * 1e-4L);
    square = square || (P.m == p);
    big = big || (P.m >= 100);
    bufRows = std::max(bufRows, P.m);
    prev = P.m;
  }
  c.labelIf(anyShrink, "shrink");
  c.labelIf(shrinkPoison, "poisoned-rows-beyond-m");
  c.labelIf(weightedAfterShrink, "weighted-after-shrink");
  c.labelIf(cholOnlyAfter, "cholesky-only-after-another-problem");
  c.labelIf(bReset, "A-only-after-(A,b)");
  c.labelIf(general, "general-preconditioner");
  c.labelIf(highCond, "cond(J)>=1e-2*limit");
  c.labelIf(square, "m==p");
  c.labelIf(big, "m>=100");
  c.labelIf(ctor == 2, "presized-constructor");
  c.nontrivial(anyShrink && p >= 2);
  c.commit();

  // ---------------- execution ----------------
  std::unique_ptr<Solver<S>> reused = construct<S>(ctor, p, m0);
  PreModel<S> pm;
  pm.A = PreModel<S>::Mat::Identity(p, p);
  pm.b = PreModel<S>::Vec::Zero(p);
  std::vector<LD> Ald(p * p, 0), Ainv;   // model preconditioner in long double and its inverse
  for (int k = 0; k < p; ++k) {Ald[k * p + k] = 1;}
  Ainv = Ald;

  for (int k = 0; k < n; ++k) {
    const Problem<S> & P = probs[k];
    const int m = P.m;
    const std::string tag = vf::fmt("problem#%d (m=%d, p=%d%s)", k, m, p, P.weighted ? ", weighted" : "");
    // preconditioner op on the reused object + model
    if (P.preOp == PRE_A) {
      reused->setPreconditionner(P.A);
      pm.A = P.A; pm.b = PreModel<S>::Vec::Zero(p); pm.everSet = true;
    } else if (P.preOp == PRE_AB) {
      reused->setPreconditionner(P.A, P.b);
      pm.A = P.A; pm.b = P.b; pm.everSet = true;
    }
    if (P.preOp != PRE_KEEP) {
      pm.symmetric = (P.aKind != A_GENERAL);
      for (int r = 0; r < p; ++r) {for (int q = 0; q < p; ++q) {Ald[r * p + q] = static_cast<LD>(pm.A(r, q));}}
      std::vector<LD> I(p * p, 0);
      for (int r = 0; r < p; ++r) {I[r * p + r] = 1;}
      c.check(solveLD(Ald, I, p, p, Ainv), "harness: generated preconditioner is singular");
      // 2-norms of A and A^-1 through the eigenvalues of A^T A
      std::vector<LD> AtA(p * p, 0);
      for (int r = 0; r < p; ++r) {
        for (int q = 0; q < p; ++q) {
          LD s = 0;
          for (int t = 0; t < p; ++t) {s += Ald[t * p + r] * Ald[t * p + q];}
          AtA[r * p + q] = s;
        }
      }
      std::vector<LD> ev = symEig(AtA, p);
      pm.normA = sqrtl(ev.back());
      pm.normAinv = 1 / sqrtl(ev.front());
      LD nb = 0;
      for (int r = 0; r < p; ++r) {nb += static_cast<LD>(pm.b(r)) * pm.b(r);}
      pm.normB = sqrtl(nb);
    }
    const LD condA = pm.normA * pm.normAinv;

    // reused object
    reused->setDataSize(static_cast<size_t>(m));
    Outcome<S> got;
    fillAndSolve<S>(c, *reused, P, p, true, got, tag + " reused solver");

    // fresh object (constructor variants rotate), same preconditioner state, same calls
    int fv = (freshCtor + k) % 4;
    std::unique_ptr<Solver<S>> fresh = construct<S>(fv >= 2 ? 2 : fv, p, m);
    if (pm.everSet) {fresh->setPreconditionner(pm.A, pm.b);}
    if (fv != 3) {fresh->setDataSize(static_cast<size_t>(m));}
    Outcome<S> ref;
    fillAndSolve<S>(c, *fresh, P, p, false, ref, tag + " fresh solver");

    // (d) history independence, bit for bit
    for (size_t q = 0; q < got.x.size(); ++q) {
      c.check(got.x[q].size() == p, vf::fmt("%s %s: estimate has %d entries", tag.c_str(), got.which[q], static_cast<int>(got.x[q].size())));
      c.check(got.x[q].allFinite(), vf::fmt("%s %s: non-finite estimate from the reused solver", tag.c_str(), got.which[q]));
      if (!bitEqual(got.x[q], ref.x[q])) {
        double d = (got.x[q] - ref.x[q]).template cast<double>().norm();
        c.fail(vf::fmt("%s %s: estimate of the reused solver differs from a fresh solver on the same rows (|diff|=%.3g, |x|=%.3g); "
          "the answer depends on earlier problems", tag.c_str(), got.which[q], d, ref.x[q].template cast<double>().norm()));
      }
      c.check(bitEqual(got.cov[q], ref.cov[q]),
        vf::fmt("%s %s: estimate covariance of the reused solver differs from a fresh solver on the same rows", tag.c_str(), got.which[q]));
    }

    // (a),(b),(e) against the long-double reference
    std::vector<LD> xref;
    c.check(solveLD(P.JtJ, P.JtY, p, 1, xref), "harness: reference normal matrix singular");
    std::vector<LD> xexp(p, 0);
    for (int r = 0; r < p; ++r) {
      LD s = static_cast<LD>(pm.b(r));
      for (int q = 0; q < p; ++q) {s += Ald[r * p + q] * xref[q];}
      xexp[r] = s;
    }
    const LD kappa2 = P.lmax / P.lmin;
    LD tolX = 0;
    for (size_t q = 0; q < got.x.size(); ++q) {
      // x0 = A^-1 (x - b)
      std::vector<LD> x0(p, 0), d(p);
      for (int r = 0; r < p; ++r) {d[r] = static_cast<LD>(got.x[q](r)) - static_cast<LD>(pm.b(r));}
      for (int r = 0; r < p; ++r) {
        LD s = 0;
        for (int t = 0; t < p; ++t) {s += Ainv[r * p + t] * d[t];}
        x0[r] = s;
      }
      // r = J^T (J x0 - Y)
      std::vector<LD> res(p, 0);
      for (int r = 0; r < m; ++r) {
        const LD * row = &P.Je[static_cast<size_t>(r) * p];
        LD e = -P.Ye[r];
        for (int t = 0; t < p; ++t) {e += row[t] * x0[t];}
        for (int t = 0; t < p; ++t) {res[t] += row[t] * e;}
      }
      const LD nx0 = norm2(x0), nres = norm2(res);
      const LD bracket = eps * (p * condA * kappa2 * P.normJtY + m * P.normJF * P.normJF * nx0 + m * P.normJF * P.normY +
        (p + 1) * P.normJF * P.normJF * (condA * nx0 + pm.normAinv * pm.normB));
      const double ratio = bracket > 0 ? static_cast<double>(nres / bracket) : (nres > 0 ? INFINITY : 0.0);
      c.maxStat(P.weighted ? "weighted normal-eq residual / bracket" :
        (got.which[q][0] == 'S' ? "SVD normal-eq residual / bracket" : "Cholesky normal-eq residual / bracket"), ratio);
      c.maxStat("normal-eq residual relative to |J^T Y| (all paths)", P.normJtY > 0 ? static_cast<double>(nres / P.normJtY) : 0.0);
      c.check(nres <= K_TOL * bracket,
        vf::fmt("%s %s: normal-equation residual |J^T%s(Jx-Y)| = %.3g exceeds %.3g (= %g eps [p cond(A) cond(J)^2 |J^T Y| + m |J|^2 |x| + ...]; "
        "cond(J)=%.3g, |J^T Y|=%.3g): the result is not the minimiser", tag.c_str(), got.which[q], P.weighted ? " W^2" : "",
        static_cast<double>(nres), static_cast<double>(K_TOL * bracket), K_TOL, static_cast<double>(sqrtl(kappa2)), static_cast<double>(P.normJtY)));

      // (b) x = A x_ref + b
      LD nxr = norm2(xref), dx = 0;
      for (int r = 0; r < p; ++r) {dx += (static_cast<LD>(got.x[q](r)) - xexp[r]) * (static_cast<LD>(got.x[q](r)) - xexp[r]);}
      dx = sqrtl(dx);
      tolX = pm.normA * K_TOL * bracket / P.lmin + 4 * eps * ((p + 1) * pm.normA * nxr + pm.normB) +
        1e-18L * p * kappa2 * pm.normA * nxr;
      c.maxStat("|x - (A x_ref + b)| / tolerance", tolX > 0 ? static_cast<double>(dx / tolX) : 0.0);
      c.check(dx <= tolX,
        vf::fmt("%s %s: estimate differs from A*x_ref + b by %.3g (tolerance %.3g, |x_ref|=%.3g, preconditioner %s)", tag.c_str(), got.which[q],
        static_cast<double>(dx), static_cast<double>(tolX), static_cast<double>(nxr), pm.everSet ? "set" : "default identity"));

      // (e) covariance for symmetric A: A inv(J^T J) A^T var
      if (pm.symmetric) {
        std::vector<LD> I(p * p, 0), inv;
        for (int r = 0; r < p; ++r) {I[r * p + r] = 1;}
        c.check(solveLD(P.JtJ, I, p, p, inv), "harness: reference normal matrix singular");
        LD dmax = 0, scale = 0;
        for (int r = 0; r < p; ++r) {
          for (int t = 0; t < p; ++t) {
            LD s = 0;
            for (int u = 0; u < p; ++u) {
              for (int v = 0; v < p; ++v) {s += Ald[r * p + u] * inv[u * p + v] * Ald[t * p + v];}
            }
            s *= static_cast<LD>(P.var);
            dmax = std::max(dmax, fabsl(s - static_cast<LD>(got.cov[q](r, t))));
          }
        }
        scale = pm.normA * pm.normA * static_cast<LD>(P.var) / P.lmin;
        const LD tolC = K_TOL * eps * (p + m) * p * kappa2 * scale;
        c.maxStat("covariance error / tolerance", static_cast<double>(dmax / tolC));
        c.check(dmax <= tolC, vf::fmt("%s %s: estimate covariance differs from A (J^T J)^-1 A^T var by %.3g (tolerance %.3g)", tag.c_str(),
          got.which[q], static_cast<double>(dmax), static_cast<double>(tolC)));
      }
    }
    // (c) the two paths agree
    if (got.x.size() == 2) {
      double d = (got.x[0] - got.x[1]).template cast<double>().norm();
      c.maxStat("|x_SVD - x_Cholesky| / tolerance", static_cast<double>(d / (2 * tolX)));
      c.check(d <= static_cast<double>(2 * tolX), vf::fmt("%s: SVD and Cholesky paths differ by %.3g (tolerance %.3g)", tag.c_str(), d,
        static_cast<double>(2 * tolX)));
    }
  }
}

const char * kRule =
  "estimate size p in 1..8 fixed per object; 2..8 problems, data size m in [p,500] (classes m<=p+3 / <=40 / <=500; one forced "
  "position strictly smaller than its predecessor); J = U diag(sigma) V^T with prescribed singular values (cond log-uniform up to "
  "0.9*limit, sigma inside the well-scaled band) or small integers with a diagonally dominant top block; Y = J x* + noise "
  "(0, 1e-8, 1e-2, 1 relative); one third of the problems weighted (w in [0.1,10], the prescribed matrix is W J); paths SVD / "
  "Cholesky / both orders; preconditioner op per problem: keep / set(A) / set(A,b), A scalar, diagonal or general with cond<=100; "
  "rows beyond m of the reused object left over or overwritten with NaN / huge / inf. Non-trivial: history contains a shrink "
  "(m_k < m_{k-1}) and p >= 2.";


// ------------------------------------------------------------------------------------------------
// sub "resolve": what the loaded problem IS decides the answer - not how it got there.
// One solver; the problem is loaded once through getJ()/getY()/getW(); then 2..4 solves follow WITHOUT reloading
// (weightedEstimate() weights J and Y in place, so the current content changes and is tracked), optionally a second,
// not larger problem is written through the references obtained at the beginning (setDataSize() does not reallocate
// then). After every solve the estimate must satisfy the normal equations of the *current* content (long double),
// un-preconditioned through x0 = A^-1 (x - b).
template<typename S>
void resolveBody(vf::Ctx & c)
{
  typedef long double LD;
  const int p = static_cast<int>(c.s.i("estimate_size", 1, 6));
  // data size: up to 120, or exactly a multiple of 64 (block-wise accumulation boundaries)
  const int m = (c.s.pick("data_size_class", {4, 1}) == 0) ? static_cast<int>(c.s.len("data_size", p + 1, 120)) : 64 * static_cast<int>(c.s.i("data_size_64s", 1, 6));
  const double condJ = c.s.rlog("cond", 1.0, sizeof(S) == 4 ? 10.0 : 100.0);
  const size_t wScale = c.s.pick("weight_scale", {3, 1, 1});            // ordinary / 1e-3 / tiny (1e-4 float, 1e-8 double)
  const size_t pre = c.s.pick("preconditioner", {2, 1, 2});             // none / identity matrix + offset / diagonal + offset
  const int nSolves = static_cast<int>(c.s.i("solves", 2, 4));
  std::vector<int> path;
  {
    bool scaledDown = false;   // the content has been multiplied by small weights
    int nWeighted = 0;
    for (int k = 0; k < nSolves; ++k) {
      int pk = static_cast<int>(c.s.pick("path", {1, 1, 1}));   // SVD / Cholesky / weighted
      // the SVD path discards singular values of J^T J below epsilon *absolutely* (documented domain: well-scaled J):
      // once small weights have been applied in place it is outside its domain - use the Cholesky path there
      if (pk == 0 && scaledDown) {pk = 1;}
      // every weighted solve multiplies the stored rows by weights spanning a factor 4: after two of them the content
      // is already 16 times worse conditioned, more would only test the tolerance formula
      if (pk == 2 && nWeighted >= 2) {pk = 1;}
      if (pk == 2) {nWeighted++;}
      if (pk == 2 && wScale != 0) {scaledDown = true;}
      path.push_back(pk);
    }
  }
  const bool second = c.s.flag("second_problem_through_held_references", 1, 3);
  const uint64_t seed = c.s.seed("content");
  // value semantics: before one of the solves the solver is replaced by a copy of itself (never combined with the
  // held references of the second problem, which would dangle)
  const int copyBefore = (!second && c.s.flag("continue_on_a_copy_of_the_solver", 1, 3)) ? static_cast<int>(c.s.i("copy_before_solve", 0, nSolves - 1)) : -1;
  c.labelIf(copyBefore >= 0, "solver-continued-on-a-copy");
  c.labelIf(m % 64 == 0, "data-size-multiple-of-64");
  bool weightedAfterUnweighted = false;
  for (int k = 1; k < nSolves; ++k) {if (path[k] == 2 && path[k - 1] != 2) {weightedAfterUnweighted = true;}}
  c.labelIf(weightedAfterUnweighted, "weighted-solve-after-unweighted-on-the-same-data");
  c.labelIf(pre == 1, "identity-matrix-with-offset");
  c.labelIf(wScale == 2, "tiny-weights");
  c.labelIf(second, "second-problem-written-through-held-references");
  c.nontrivial(weightedAfterUnweighted || second || pre == 1);
  c.commit();

  vf::Rng rng(seed);
  const double eps = vf::epsOf<S>();
  auto makeProblem = [&](int rows, std::vector<LD> & J, std::vector<LD> & Y) {
      // J = U diag(s) V^T with the prescribed condition number, entries rounded to S
      std::vector<double> U, V;
      orthonormalColumns(U, rows, p, rng);
      orthonormalColumns(V, p, p, rng);
      J.assign(static_cast<size_t>(rows) * p, 0); Y.assign(rows, 0);
      for (int r = 0; r < rows; ++r) {
        for (int cc = 0; cc < p; ++cc) {
          double a = 0;
          for (int k = 0; k < p; ++k) {
            double sv = (p == 1) ? 1.0 : std::pow(condJ, -static_cast<double>(k) / (p - 1));
            a += U[static_cast<size_t>(k) * rows + r] * sv * V[static_cast<size_t>(k) * p + cc];
          }
          J[static_cast<size_t>(r) * p + cc] = static_cast<S>(a);
        }
        Y[r] = static_cast<S>(rng.gauss());
      }
    };
  std::vector<LD> J, Y, W(m);
  makeProblem(m, J, Y);
  const double ws = wScale == 0 ? 1.0 : (wScale == 1 ? 1e-3 : (sizeof(S) == 4 ? 1e-4 : 1e-8));
  for (int r = 0; r < m; ++r) {W[r] = static_cast<S>(ws * rng.uniform(0.5, 2.0));}
  std::vector<LD> A(p, 1), b(p, 0);
  if (pre != 0) {
    for (int k = 0; k < p; ++k) {
      A[k] = (pre == 1) ? 1.0L : static_cast<LD>(static_cast<S>(std::pow(10.0, rng.uniform(-1, 1))));
      b[k] = static_cast<S>(rng.uniform(-3, 3));
    }
  }

  std::unique_ptr<Solver<S>> holder(new Solver<S>(static_cast<size_t>(p)));
  holder->setDataSize(static_cast<size_t>(m));
  auto & Jl = holder->getJ();
  auto & Yl = holder->getY();
  auto & Wl = holder->getW();
  int rows = m;
  auto load = [&]() {
      for (int r = 0; r < rows; ++r) {
        for (int k = 0; k < p; ++k) {Jl(r, k) = static_cast<S>(J[static_cast<size_t>(r) * p + k]);}
        Yl(r) = static_cast<S>(Y[r]);
        Wl(r) = static_cast<S>(W[r]);
      }
    };
  load();
  if (pre != 0) {
    typename Solver<S>::Matrix Am = Solver<S>::Matrix::Zero(p, p);
    typename Solver<S>::Vector bv(p);
    for (int k = 0; k < p; ++k) {Am(k, k) = static_cast<S>(A[k]); bv(k) = static_cast<S>(b[k]);}
    holder->setPreconditionner(Am, bv);
  }
  auto solveAndCheck = [&](int pathKind, const std::string & who) {
      Solver<S> & ls = *holder;
      if (pathKind == 2) {
        // the weighted path multiplies the stored rows by the weights: afterwards that IS the content
        for (int r = 0; r < rows; ++r) {
          LD w = W[r];
          for (int k = 0; k < p; ++k) {J[static_cast<size_t>(r) * p + k] = static_cast<S>(static_cast<S>(J[static_cast<size_t>(r) * p + k]) * static_cast<S>(w));}
          Y[r] = static_cast<S>(static_cast<S>(Y[r]) * static_cast<S>(w));
        }
      }
      typename Solver<S>::Vector x = pathKind == 0 ? ls.estimateUsingSVD() : (pathKind == 1 ? ls.estimateUsingCholeskyDecomposition() : ls.weightedEstimate());
      VF_CHECK(c, x.size() == p && x.allFinite(), "%s: estimate not finite", who.c_str());
      // normal equations of the current content
      std::vector<LD> x0(p), g(p, 0);
      for (int k = 0; k < p; ++k) {x0[k] = (static_cast<LD>(x(k)) - b[k]) / A[k];}
      LD nJ = 0, nY = 0, nx = 0;
      for (int r = 0; r < rows; ++r) {
        LD e = -Y[r];
        for (int k = 0; k < p; ++k) {e += J[static_cast<size_t>(r) * p + k] * x0[k]; nJ += J[static_cast<size_t>(r) * p + k] * J[static_cast<size_t>(r) * p + k];}
        nY += Y[r] * Y[r];
        for (int k = 0; k < p; ++k) {g[k] += J[static_cast<size_t>(r) * p + k] * e;}
      }
      LD ng = 0;
      for (int k = 0; k < p; ++k) {ng += g[k] * g[k]; nx += x0[k] * x0[k];}
      ng = sqrtl(ng); nJ = sqrtl(nJ); nY = sqrtl(nY); nx = sqrtl(nx);
      LD bmag = 0, amax = 0;
      for (int k = 0; k < p; ++k) {bmag += b[k] * b[k]; amax = std::max(amax, 1 / A[k]);}
      // rounding: solving with cond(J)^2, forming J^T J / J^T Y with m terms, un-preconditioning
      // conditioning of the content as it is NOW (in-place weighting changes it): singular values of the current J
      double condNow = condJ;
      {
        Eigen::MatrixXd Jm(rows, p);
        for (int r = 0; r < rows; ++r) {for (int k = 0; k < p; ++k) {Jm(r, k) = static_cast<double>(J[static_cast<size_t>(r) * p + k]);}}
        Eigen::JacobiSVD<Eigen::MatrixXd> svd(Jm);
        const double smin = svd.singularValues()(p - 1), smax = svd.singularValues()(0);
        condNow = smin > 0 ? smax / smin : 1e300;
      }
      c.maxStat("resolve: condition number of the content at solve time", condNow);
      LD tol = 64 * eps * (static_cast<LD>(condNow) * condNow * p * nJ * nY + (rows + p) * nJ * nJ * (nx + amax * sqrtl(bmag)) + rows * nJ * nY);
      c.maxStat(sizeof(S) == 4 ? "resolve: normal-equation residual / tolerance (float)" : "resolve: normal-equation residual / tolerance (double)", static_cast<double>(ng / tol));
      VF_CHECK(c, ng <= tol, "%s: the estimate does not solve the problem that is currently loaded: |J^T(Jx-Y)| = %.3Lg > %.3Lg (p=%d rows=%d cond=%.3g; |J^T Y|-scale %.3Lg)",
        who.c_str(), ng, tol, p, rows, condJ, nJ * nY);
    };
  static const char * pn[] = {"SVD", "Cholesky", "weighted"};
  for (int k = 0; k < nSolves; ++k) {
    if (k == copyBefore) {
      std::unique_ptr<Solver<S>> copy(new Solver<S>(*holder));
      holder = std::move(copy);
    }
    solveAndCheck(path[k], vf::fmt("solve #%d (%s) without reloading%s", k, pn[path[k]], copyBefore >= 0 && k >= copyBefore ? " (on a copy of the solver)" : ""));
  }
  if (second) {
    // a second, not larger problem written through the references obtained before the first solve
    rows = std::max(p + 1, m - static_cast<int>(rng.below(static_cast<uint64_t>(m - p))));
    makeProblem(rows, J, Y);
    for (int r = 0; r < rows; ++r) {W[r] = static_cast<S>(ws * rng.uniform(0.5, 2.0));}
    bool realloc = holder->setDataSize(static_cast<size_t>(rows));
    c.harnessCheck(!realloc, "setDataSize(smaller) reallocated");
    load();
    for (int k = 0; k < nSolves; ++k) {solveAndCheck(path[k], vf::fmt("second problem, solve #%d (%s)", k, pn[path[k]]));}   // fresh content: same path sequence is in-domain again
  }
}

const char * kResolveRule =
  "estimate size 1..6, data size up to 120, J = U diag(s) V^T with cond <= 100 (10 for float), weights 0.5..2 times 1 / 1e-3 / 1e-8 "
  "(1e-4 float), preconditioner none / identity matrix + offset / diagonal + offset; the problem is loaded once, then 2..4 solves "
  "(SVD / Cholesky / weighted) run without reloading, optionally followed by a second, not larger problem written through the "
  "references obtained at the start; after every solve the estimate must satisfy the normal equations of the content currently "
  "in the solver. Non-trivial: a weighted solve after an unweighted one on the same data, a second problem through held references, "
  "or an identity-matrix preconditioner with a non-zero offset.";

const std::vector<vf::Sub> kSubs = {
  {"history_double", history<double>, kRule},
  {"history_float", history<float>, kRule},
  {"resolve_double", resolveBody<double>, kResolveRule},
  {"resolve_float", resolveBody<float>, kResolveRule},
};

}  // namespace

VF_HARNESS(kSubs)
