// C16 - Sliding-window statistics and ring buffers reflect exactly the last W items
#include "vf_main.hpp"
#include <algorithm>

#include <Eigen/Core>
#include <deque>
#include <memory>
#include "romea_core_common/monitoring/OnlineAverage.hpp"
#include "romea_core_common/monitoring/OnlineVariance.hpp"
#include "romea_core_common/containers/Eigen/RingOfEigenVector.hpp"

using romea::core::OnlineAverage;
using romea::core::OnlineVariance;

namespace {

typedef long double LD;

struct Precision {double p; bool dyadic; int k2;};

Precision genPrecision(vf::Ctx & c)
{
  Precision pr{1.0, false, 0};
  size_t kind = c.s.pick("precision_kind", {3, 3, 3});
  if (kind == 0) {
    int k = static_cast<int>(c.s.i("precision_pow10", 0, 6));
    pr.p = std::pow(10.0, -k);
  } else if (kind == 1) {
    int64_t m = c.s.i("precision_inverse", 1, 1000000);
    pr.p = 1.0 / static_cast<double>(m);
  } else {
    pr.k2 = static_cast<int>(c.s.i("precision_pow2", 0, 19));
    pr.p = std::ldexp(1.0, -pr.k2);
    pr.dyadic = true;
  }
  if (pr.p < 2e-5) {c.label("fine-precision(<2e-5)");}
  return pr;
}

// a history: segments of updates separated by reset(); values follow a pattern chosen per history
struct Hist
{
  std::vector<int> segLen;          // number of updates per segment (reset between segments)
  std::vector<double> values;       // all update values, in order
};

Hist genHistory(vf::Ctx & c, int W, const Precision & pr, bool exactSamples, bool fractional = false)
{
  Hist h;
  int nseg = static_cast<int>(c.s.i("segments", 1, 4));
  int total = 0;
  bool resetAfterWrap = false, resetOffPhase = false;
  for (int s = 0; s < nseg; ++s) {
    size_t lc = c.s.pick("seg_len_class", {2, 3, 3});
    int len;
    if (lc == 0) {len = static_cast<int>(c.s.i("seg_len", 0, W));} else if (lc == 1) {
      len = static_cast<int>(c.s.i("seg_len", W + 1, 2 * W + 1));
    } else {len = static_cast<int>(c.s.i("seg_len", W + 1, std::max(W + 1, std::min(10 * W - total, 4 * W + 3))));}
    if (total + len > 10 * W) {len = std::max(0, 10 * W - total);}
    h.segLen.push_back(len);
    total += len;
    if (s + 1 < nseg) {
      if (len >= W + 1) {resetAfterWrap = true;}
      if (len % W != 0) {resetOffPhase = true;}
    }
  }
  // constant, ramp, noisy, alternating, large mean + small spread, magnitude swing (large values, then small ones)
  // ... and small integers (many exact ties between the entering and the leaving sample)
  size_t pattern = c.s.pick("pattern", {1, 2, 3, 2, 2, 3, 2});
  double scaleMax = 1e8 * pr.p;
  double scale = c.s.rlog("scale", std::min(10.0 * pr.p, scaleMax), scaleMax);
  uint64_t seed = c.s.seed("sample_seed");
  vf::Rng rng(seed);
  double base = rng.uniform(-scale, scale);
  vf::Rng rng2(seed ^ 0x9e3779b97f4a7c15ULL);   // separate stream: the main stream must stay what older tapes produced
  const int swingBlock = W * (1 + static_cast<int>(rng2.below(3))) + static_cast<int>(rng2.below(3));
  if (pattern == 5) {c.label("magnitude-swing");}
  if (pattern == 6) {c.label("few-distinct-values(ties-with-leaving-sample)");}
  for (int k = 0; k < total; ++k) {
    double v = 0;
    switch (pattern) {
      case 0: v = base; break;
      case 1: v = -scale + 2 * scale * (static_cast<double>(k % 97) / 97.0); break;
      case 2: v = rng.uniform(-scale, scale); break;
      case 3: v = ((k & 1) ? -1.0 : 1.0) * rng.uniform(0.5 * scale, scale); break;
      case 4: v = 0.999 * scale + rng.uniform(-10, 10) * pr.p; break;
      case 6: v = static_cast<double>(rng.range(-3, 3)) * pr.p * 4; break;   // 7 distinct values only: ties with the leaving sample
      default: {
          // blocks of 1..3 windows alternating between the top of the magnitude range and a few precisions: what
          // is left in the running sums after the large values have left the window must not pollute the small ones
          int block = k / std::max(1, swingBlock);
          v = (block % 2 == 0) ? ((rng.u() < 0.5 ? -1.0 : 1.0) * scaleMax * rng.uniform(0.6, 1.0)) : rng.uniform(-20, 20) * pr.p;
          break;
        }
    }
    if (exactSamples) {v = std::round(v / pr.p) * pr.p;}  // exact multiple of a dyadic precision
    if (exactSamples && fractional) {
      // add a dyadic fraction of the precision: v/p = j + f is still exact in binary, so every way of
      // scaling agrees and "truncated to the precision" means exactly trunc(j + f) toward zero
      v += (0.25 * static_cast<double>(1 + rng.below(3))) * pr.p;
    }
    if (v > scaleMax) {v = scaleMax;}
    if (v < -scaleMax) {v = -scaleMax;}
    h.values.push_back(v);
  }
  if (resetAfterWrap) {c.label("reset-after-wrap");}
  if (resetOffPhase) {c.label("reset-with-replacement-index!=0");}
  // non-trivial: a reset off phase followed by at least W+1 further updates
  bool nt = false;
  for (size_t s = 0; s + 1 < h.segLen.size(); ++s) {
    if (h.segLen[s] % W != 0 && h.segLen[s + 1] >= W + 1) {nt = true;}
  }
  if (nt) {c.label("off-phase-reset-then-wrap");}
  c.nontrivial(nt || (nseg == 1 && total > 2 * W));
  return h;
}

void averageHistory(vf::Ctx & c)
{
  int W = static_cast<int>(c.s.len("window", 1, 64));
  Precision pr = genPrecision(c);
  bool exact = pr.dyadic && c.s.flag("exact_samples", 2, 3);
  bool frac = exact && c.s.flag("fractional_samples");
  if (exact) {c.label("dyadic-exact");}
  if (frac) {c.label("dyadic-fractional(truncation-direction)");}
  Hist h = genHistory(c, W, pr, exact, frac);
  // value semantics: at one point of the history the object is replaced by a copy of itself (the copy constructor is
  // hand written in this class); -1 = never
  const int copyAt = c.s.flag("continue_on_a_copy", 1, 3) ? static_cast<int>(c.s.i("copy_before_update", 0, std::max<int>(0, static_cast<int>(h.values.size()) - 1))) : -1;
  if (copyAt >= 0 && !h.values.empty()) {c.label("continued-on-a-copy");}
  // the window is given to the constructor / set afterwards with setWindowSize / set to something else first
  const size_t configuredBy = c.s.pick("window_configured_by", {2, 1, 1});
  c.labelIf(configuredBy != 0, "window-set-with-setWindowSize");
  c.commit();

  std::unique_ptr<OnlineAverage> avgHolder;
  if (configuredBy == 0) {
    avgHolder.reset(new OnlineAverage(pr.p, static_cast<size_t>(W)));
  } else {
    avgHolder.reset(new OnlineAverage(pr.p));
    if (configuredBy == 2) {avgHolder->setWindowSize(static_cast<size_t>(W % 7 + 1));}
    avgHolder->setWindowSize(static_cast<size_t>(W));
  }
  VF_CHECK(c, avgHolder->getWindowSize() == static_cast<size_t>(W), "getWindowSize() = %zu, configured window %d", avgHolder->getWindowSize(), W);
  const double mLo = std::max(1.0, std::floor(1.0 / pr.p) - 1.0);
  const double truncBound = 1.0 / mLo;
  size_t pos = 0;
  for (size_t s = 0; s < h.segLen.size(); ++s) {
    std::deque<double> win;
    int n = 0;
    if (s > 0) {
      avgHolder->reset();
      VF_CHECK(c, !avgHolder->isAvailable(), "segment %zu: isAvailable() is true right after reset()", s);
    }
    for (int k = 0; k < h.segLen[s]; ++k) {
      if (static_cast<int>(pos) == copyAt) {
        std::unique_ptr<OnlineAverage> copy(new OnlineAverage(*avgHolder));
        avgHolder = std::move(copy);
      }
      double v = h.values[pos++];
      avgHolder->update(v);
      ++n;
      win.push_back(exact ? std::trunc(v / pr.p) * pr.p : v);   // exact class: the truncated sample itself
      if (static_cast<int>(win.size()) > W) {win.pop_front();}
      bool avail = avgHolder->isAvailable();
      VF_CHECK(c, avail == (n >= W), "segment %zu update %d (W=%d): isAvailable()=%d but %d samples arrived since the last reset", s, n, W, avail, n);
      VF_CHECK(c, avgHolder->getWindowSize() == static_cast<size_t>(W), "segment %zu update %d: getWindowSize() = %zu, configured window %d", s, n, avgHolder->getWindowSize(), W);
      LD sum = 0;
      for (double x : win) {sum += x;}
      LD mean = sum / static_cast<LD>(win.size());
      double got = avgHolder->getAverage();
      VF_CHECK(c, std::isfinite(got), "segment %zu update %d: average not finite", s, n);
      double err = std::fabs(static_cast<double>(got - mean));
      c.maxStat("average-error/precision", err / pr.p);
      if (exact) {
        // samples are integer multiples of p = 2^-k: truncation is the identity, the average must be exact
        double tol = 1e-12 * std::max(std::fabs(static_cast<double>(mean)), pr.p);
        VF_CHECK(c, err <= tol, "segment %zu update %d (W=%d, p=2^-%d): average %.17g, mean of the last %zu samples is %.17Lg",
          s, n, W, pr.k2, got, win.size(), mean);
      } else {
        double tol = truncBound * (1 + 1e-7) + 1e-12 * std::fabs(static_cast<double>(mean));
        VF_CHECK(c, err <= tol, "segment %zu update %d (W=%d, p=%.9g): average %.17g differs from the mean %.17Lg of the last %zu samples by %.3g > truncation bound %.3g",
          s, n, W, pr.p, got, mean, win.size(), err, tol);
      }
    }
  }
}

void varianceHistory(vf::Ctx & c)
{
  int W = static_cast<int>(c.s.len("window", 2, 64));
  Precision pr = genPrecision(c);
  bool exact = pr.dyadic && c.s.flag("exact_samples", 2, 3);
  bool frac = exact && c.s.flag("fractional_samples");
  if (exact) {c.label("dyadic-exact");}
  if (frac) {c.label("dyadic-fractional(truncation-direction)");}
  Hist h = genHistory(c, W, pr, exact, frac);
  const int copyAt = c.s.flag("continue_on_a_copy", 1, 3) ? static_cast<int>(c.s.i("copy_before_update", 0, std::max<int>(0, static_cast<int>(h.values.size()) - 1))) : -1;
  if (copyAt >= 0 && !h.values.empty()) {c.label("continued-on-a-copy");}
  // the window is given to the constructor / set afterwards with setWindowSize (directly, or through a reference to the
  // base class: the function is virtual) / set to something else first
  const size_t configuredBy = c.s.pick("window_configured_by", {2, 1, 1, 1});
  c.labelIf(configuredBy != 0, "window-set-with-setWindowSize");
  c.commit();

  std::unique_ptr<OnlineVariance> varHolder;
  if (configuredBy == 0) {
    varHolder.reset(new OnlineVariance(pr.p, static_cast<size_t>(W)));
  } else {
    varHolder.reset(new OnlineVariance(pr.p));
    if (configuredBy == 2) {varHolder->setWindowSize(static_cast<size_t>(W % 7 + 2));}
    if (configuredBy == 3) {
      OnlineAverage & base = *varHolder;
      base.setWindowSize(static_cast<size_t>(W));
    } else {
      varHolder->setWindowSize(static_cast<size_t>(W));
    }
  }
  VF_CHECK(c, varHolder->getWindowSize() == static_cast<size_t>(W), "getWindowSize() = %zu, configured window %d", varHolder->getWindowSize(), W);
  const double mLo = std::max(1.0, std::floor(1.0 / pr.p) - 1.0);
  const double d = 1.0 / mLo;
  size_t pos = 0;
  for (size_t s = 0; s < h.segLen.size(); ++s) {
    std::deque<double> win;
    int n = 0;
    if (s > 0) {
      varHolder->reset();
      VF_CHECK(c, !varHolder->isAvailable(), "segment %zu: isAvailable() is true right after reset()", s);
    }
    for (int k = 0; k < h.segLen[s]; ++k) {
      if (static_cast<int>(pos) == copyAt) {
        std::unique_ptr<OnlineVariance> copy(new OnlineVariance(*varHolder));
        varHolder = std::move(copy);
      }
      double v = h.values[pos++];
      varHolder->update(v);
      ++n;
      win.push_back(exact ? std::trunc(v / pr.p) * pr.p : v);
      if (static_cast<int>(win.size()) > W) {win.pop_front();}
      VF_CHECK(c, varHolder->isAvailable() == (n >= W), "segment %zu update %d (W=%d): isAvailable()=%d", s, n, W, varHolder->isAvailable());
      if (n < W) {continue;}
      // exact statistics of the window (long double is enough: |v|/p <= 1e8, W <= 64)
      LD sum = 0, sumsq = 0;
      for (double x : win) {sum += x; sumsq += static_cast<LD>(x) * x;}
      LD mean = sum / W;
      LD ss = 0;
      for (double x : win) {ss += (x - mean) * (x - mean);}
      LD refVar = ss / (W - 1);
      double got = varHolder->getVariance();
      VF_CHECK(c, std::isfinite(got), "segment %zu update %d: variance not finite", s, n);
      // rounding of (sumsq/m^2 - n*avg^2)/(W-1): two large nearly equal numbers
      double roundTol = 64 * 2.220446049250313e-16 * static_cast<double>((sumsq + W * mean * mean) / (W - 1));
      double tol = roundTol;
      if (!exact) {
        double sd = std::sqrt(static_cast<double>(refVar));
        tol += 4 * sd * d * std::sqrt(static_cast<double>(W) / (W - 1)) + 4 * d * d * W / (W - 1.0);
        tol *= (1 + 1e-7);
      }
      double err = std::fabs(static_cast<double>(got - refVar));
      c.maxStat("variance-error/tolerance", tol > 0 ? err / tol : (err > 0 ? 1e300 : 0));
      VF_CHECK(c, err <= tol, "segment %zu update %d (W=%d, p=%.9g%s): variance %.17g, unbiased sample variance of the last W samples is %.17Lg (|diff| %.3g > tol %.3g)",
        s, n, W, pr.p, exact ? ", exact samples" : "", got, refVar, err, tol);
      // the average reported by the variance object follows the same window
      double ga = varHolder->getAverage();
      double atol = exact ? 1e-12 * std::max(std::fabs(static_cast<double>(mean)), pr.p) : d * (1 + 1e-7) + 1e-12 * std::fabs(static_cast<double>(mean));
      VF_CHECK(c, std::fabs(static_cast<double>(ga - mean)) <= atol, "segment %zu update %d: OnlineVariance average %.17g vs window mean %.17Lg", s, n, ga, mean);
    }
  }
}

template<class V>
void runRing(vf::Ctx & c, int cap, const std::vector<int> & ops, const std::vector<int> & aliasIdx)
{
  auto item = [](int id) {
      V v;
      for (int d = 0; d < v.size(); ++d) {v[d] = static_cast<typename V::Scalar>(d == 0 ? id : -2.0 * id + d);}
      return v;
    };
  romea::core::RingOfEigenVector<V> ring(static_cast<size_t>(cap));
  std::deque<int> model;  // ids, newest first
  int id = 0;
  int step = 0;
  for (int op : ops) {
    if (op == 0) {
      ++id;
      ring.append(item(id));
      model.push_front(id);
      if (static_cast<int>(model.size()) > cap) {model.pop_back();}
    } else if (op == 2) {
      // the argument is a reference into the ring itself: the appended item must be the value it had at the call
      int which = model[static_cast<size_t>(aliasIdx[static_cast<size_t>(step)])];
      ring.append(ring[static_cast<size_t>(aliasIdx[static_cast<size_t>(step)])]);
      model.push_front(which);
      if (static_cast<int>(model.size()) > cap) {model.pop_back();}
    } else {
      ring.clear();
      model.clear();
    }
    VF_CHECK(c, ring.size() == model.size(), "op %d: size() = %zu, expected min(n, capacity) = %zu (capacity %d)", step, ring.size(), model.size(), cap);
    for (size_t k = 0; k < model.size(); ++k) {
      const V & e = ring[k];
      if (!(e == item(model[k]))) {
        c.fail(vf::fmt("op %d (capacity %d, %zu held): ring[%zu] is item %g, the %zu-th most recent item is %d", step, cap, model.size(), k, e[0], k, model[k]));
      }
    }
    // the storage handed out by get() holds exactly the items of the ring (in whatever physical order)
    const romea::core::RingOfEigenVector<V> & cring = ring;
    VF_CHECK(c, cring.get().size() == model.size() && ring.get().size() == model.size(), "op %d: get().size() = %zu, %zu items held", step, cring.get().size(), model.size());
    std::vector<int> stored, held(model.begin(), model.end());
    for (const V & e : cring.get()) {stored.push_back(static_cast<int>(e[0]));}
    std::sort(stored.begin(), stored.end());
    std::sort(held.begin(), held.end());
    VF_CHECK(c, stored == held, "op %d: the items in get() are not the items held by the ring", step);
    step++;
  }
}

void ringHistory(vf::Ctx & c)
{
  int cap = static_cast<int>(c.s.i("capacity", 1, 16));
  int nops = static_cast<int>(c.s.len("n_ops", 1, 80));
  std::vector<int> ops;  // 0 append, 1 clear, 2 append a reference to an item that is in the ring (aliasing)
  std::vector<int> aliasIdx;
  int appendsSinceClear = 0, held = 0;
  bool over = false, clearThenAppend = false, cleared = false, aliased = false;
  for (int k = 0; k < nops; ++k) {
    int op = static_cast<int>(c.s.pick("op", {12, 1, 2}));
    if (op == 2 && held == 0) {op = 0;}
    aliasIdx.push_back(op == 2 ? static_cast<int>(c.s.i("alias_index", 0, held - 1)) : 0);
    if (op == 2) {aliased = true;}
    if (op != 1) {held = std::min(cap, held + 1);} else {held = 0;}
    ops.push_back(op);
    if (op != 1) {
      appendsSinceClear++;
      if (appendsSinceClear > cap) {over = true;}
      if (cleared) {clearThenAppend = true;}
    } else {appendsSinceClear = 0; cleared = true;}
  }
  if (aliased) {c.label("append-of-an-item-read-from-the-ring(aliasing)");}
  bool pow2 = (cap & (cap - 1)) == 0;
  if (!pow2) {c.label("non-pow2");}
  if (clearThenAppend) {c.label("clear-then-append");}
  if (over) {c.label("wrapped(n>capacity)");}
  c.nontrivial(over && !pow2);
  c.nontrivial(clearThenAppend);
  const size_t vt = c.s.pick("vector_type", {2, 1, 1});
  c.labelIf(vt == 1, "ring-of-Vector3f");
  c.labelIf(vt == 2, "ring-of-Vector4d");
  c.commit();
  if (vt == 0) {
    runRing<Eigen::Vector2d>(c, cap, ops, aliasIdx);
  } else if (vt == 1) {
    runRing<Eigen::Vector3f>(c, cap, ops, aliasIdx);
  } else {
    runRing<Eigen::Vector4d>(c, cap, ops, aliasIdx);
  }
}


const char * kHistRule =
  "window W in 1..64 (2..64 variance); precision 10^-k (k=0..6), 1/m (m<=1e6) or 2^-k (k<=19); 1..4 segments of updates separated "
  "by reset(), segment lengths in [0,W], [W+1,2W+1] or up to 4W+3 (total <= 10W); samples constant/ramp/noisy/alternating/large-mean "
  "with |v|/p <= 1e8, from a drawn seed; 'dyadic-exact' cases use samples that are integer multiples of p=2^-k so the exact integer "
  "mean/variance is the oracle, other cases are bounded by the truncation error 1/m. Non-trivial: a reset when the number of updates "
  "since the previous reset is not a multiple of W, followed by >= W+1 updates; or a single segment longer than 2W.";

const std::vector<vf::Sub> kSubs = {
  {"average", averageHistory, kHistRule},
  {"variance", varianceHistory, kHistRule},
  {"ring", ringHistory,
    "capacity 1..16, 1..80 ops (12:1 append:clear), items tagged with a running id; after every op size() and every index k are "
    "compared with a deque model. Non-trivial: more appends than the capacity on a capacity that is not a power of two, or an append "
    "after clear()."},
};

}  // namespace

VF_HARNESS(kSubs)
