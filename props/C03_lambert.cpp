// C03 - Lambert conic projection is conformal, true-scale on its parallels, invertible
#include "vf_main.hpp"

#include <Eigen/Core>
#include "romea_core_common/geodesy/LambertConverter.hpp"

using romea::core::EarthEllipsoid;
using romea::core::LambertConverter;
using romea::core::WGS84Coordinates;

namespace {

const double PI = 3.14159265358979323846;
const double D2R = PI / 180.0;

struct Setup
{
  bool tangent;
  double lat0, lon0, lat1, lat2, k0, x0, y0;
  double a, e;
};

struct RealZone {const char * name; bool tangent; double lat0, lon0, lat1, lat2, k0, x0, y0, a, e;};
const double E_GRS80 = 0.0818191910428158, E_CLARKE = 0.08248325676, A_CLARKE = 6378249.2;
const double LON_PARIS = (2.0 + 20.0 / 60 + 14.025 / 3600) * D2R;
const RealZone kZones[] = {
  {"Lambert-93", false, 46.5 * D2R, 3 * D2R, 44 * D2R, 49 * D2R, 1, 700000, 6600000, 6378137.0, E_GRS80},
  {"CC42", false, 42 * D2R, 3 * D2R, 41.25 * D2R, 42.75 * D2R, 1, 1700000, 1200000, 6378137.0, E_GRS80},
  {"CC43", false, 43 * D2R, 3 * D2R, 42.25 * D2R, 43.75 * D2R, 1, 1700000, 2200000, 6378137.0, E_GRS80},
  {"CC44", false, 44 * D2R, 3 * D2R, 43.25 * D2R, 44.75 * D2R, 1, 1700000, 3200000, 6378137.0, E_GRS80},
  {"CC45", false, 45 * D2R, 3 * D2R, 44.25 * D2R, 45.75 * D2R, 1, 1700000, 4200000, 6378137.0, E_GRS80},
  {"CC46", false, 46 * D2R, 3 * D2R, 45.25 * D2R, 46.75 * D2R, 1, 1700000, 5200000, 6378137.0, E_GRS80},
  {"CC47", false, 47 * D2R, 3 * D2R, 46.25 * D2R, 47.75 * D2R, 1, 1700000, 6200000, 6378137.0, E_GRS80},
  {"CC48", false, 48 * D2R, 3 * D2R, 47.25 * D2R, 48.75 * D2R, 1, 1700000, 7200000, 6378137.0, E_GRS80},
  {"CC49", false, 49 * D2R, 3 * D2R, 48.25 * D2R, 49.75 * D2R, 1, 1700000, 8200000, 6378137.0, E_GRS80},
  {"CC50", false, 50 * D2R, 3 * D2R, 49.25 * D2R, 50.75 * D2R, 1, 1700000, 9200000, 6378137.0, E_GRS80},
  {"Lambert-I", true, 49.5 * D2R, LON_PARIS, 0, 0, 0.99987734, 600000, 200000, A_CLARKE, E_CLARKE},
  {"Lambert-II", true, 46.8 * D2R, LON_PARIS, 0, 0, 0.99987742, 600000, 200000, A_CLARKE, E_CLARKE},
  {"Lambert-II-etendu", true, 46.8 * D2R, LON_PARIS, 0, 0, 0.99987742, 600000, 2200000, A_CLARKE, E_CLARKE},
  {"Lambert-III", true, 44.1 * D2R, LON_PARIS, 0, 0, 0.99987750, 600000, 200000, A_CLARKE, E_CLARKE},
  {"Lambert-IV", true, 42.165 * D2R, LON_PARIS, 0, 0, 0.99994471, 234.358, 185861.369, A_CLARKE, E_CLARKE},
};
const int kNZones = sizeof(kZones) / sizeof(kZones[0]);

Setup genSetup(vf::Ctx & c)
{
  Setup s{};
  size_t kind = c.s.pick("setup_kind", {4, 3, 2});  // secant, tangent, real zone
  if (kind == 2) {
    int z = static_cast<int>(c.s.i("zone", 0, kNZones - 1));
    const RealZone & r = kZones[z];
    s = Setup{r.tangent, r.lat0, r.lon0, r.lat1, r.lat2, r.k0, r.x0, r.y0, r.a, r.e};
    c.label("real-zone");
    if (s.tangent) {c.label("tangent");}
    return s;
  }
  bool south = c.s.flag("south");
  double sg = south ? -1.0 : 1.0;
  s.a = c.s.r("a", 6378137.0 * 0.999, 6378137.0 * 1.001);
  size_t ek = c.s.pick("e_kind", {3, 1, 1});
  s.e = (ek == 0) ? c.s.r("e", 0.0, 0.1) : (ek == 1 ? 0.0 : E_GRS80);
  s.lon0 = c.s.r("lon0", -PI, PI);
  s.x0 = c.s.r("x0", -1e7, 1e7);
  s.y0 = c.s.r("y0", -1e7, 1e7);
  if (kind == 0) {
    s.tangent = false;
    double sep = c.s.r("sep_deg", 1.0, 20.0) * D2R;
    double lo = c.s.r("lat_low_deg", 15.0, 75.0 - sep / D2R) * D2R;
    double hi = lo + sep;
    bool swapped = c.s.flag("parallels_swapped");
    s.lat1 = sg * (swapped ? hi : lo);
    s.lat2 = sg * (swapped ? lo : hi);
    s.lat0 = sg * c.s.r("lat0_abs", lo - 3 * D2R, hi + 3 * D2R);
    s.k0 = 1;
  } else {
    s.tangent = true;
    s.lat0 = sg * c.s.r("lat0_abs", 15 * D2R, 75 * D2R);
    s.k0 = c.s.r("k0", 0.99, 1.0);
    c.label("tangent");
  }
  if (south) {c.label("southern");}
  if (s.e == 0.0) {c.label("sphere");}
  return s;
}

EarthEllipsoid makeEllipsoid(const Setup & s)
{
  return EarthEllipsoid(s.a, s.a * std::sqrt(1.0 - s.e * s.e));
}

LambertConverter makeConverter(const Setup & s)
{
  EarthEllipsoid el = makeEllipsoid(s);
  if (s.tangent) {
    LambertConverter::TangentProjectionParameters p;
    p.latitude0 = s.lat0; p.longitude0 = s.lon0; p.k0 = s.k0; p.x0 = s.x0; p.y0 = s.y0;
    return LambertConverter(p, el);
  }
  LambertConverter::SecantProjectionParameters p;
  p.longitude0 = s.lon0; p.latitude0 = s.lat0; p.latitude1 = s.lat1; p.latitude2 = s.lat2; p.x0 = s.x0; p.y0 = s.y0;
  return LambertConverter(p, el);
}

Eigen::Vector2d fwd(const LambertConverter & cv, double lat, double lon)
{
  return cv.toLambert(romea::core::makeWGS84Coordinates(lat, lon));
}

// meridian and parallel scale factors and the cosine of the angle between the image directions
void scales(const LambertConverter & cv, const EarthEllipsoid & el, double lat, double lon, double & km, double & kp, double & cosang)
{
  const double h = 1e-5;
  Eigen::Vector2d dphi = (fwd(cv, lat + h, lon) - fwd(cv, lat - h, lon)) / (2 * h);
  Eigen::Vector2d dlam = (fwd(cv, lat, lon + h) - fwd(cv, lat, lon - h)) / (2 * h);
  double e2 = el.e2, sl = std::sin(lat);
  double w = std::sqrt(1 - e2 * sl * sl);
  double M = el.a * (1 - e2) / (w * w * w), N = el.a / w;
  km = dphi.norm() / M;
  kp = dlam.norm() / (N * std::cos(lat));
  cosang = dphi.dot(dlam) / (dphi.norm() * dlam.norm());
}

void projection(vf::Ctx & c)
{
  Setup s = genSetup(c);
  double dlat = c.s.r("dlat_deg", -8.0, 8.0) * D2R;
  double dlon = c.s.r("dlon_deg", -30.0, 30.0) * D2R;
  double shift = c.s.r("lon_shift", -1.0, 1.0);
  double lonAtParallel = c.s.r("dlon_parallel_deg", -30.0, 30.0) * D2R;
  // (drawn last so that older tapes stay replayable) longitude offset packed around the central meridian instead
  if (c.s.pick("dlon_class", {3, 1}) == 1) {dlon = c.s.near("dlon_rad", 0.0, 3.0, 12.0, -30.0 * D2R, 30.0 * D2R);}
  c.nontrivial();
  c.labelIf(dlon < 0, "west-of-central-meridian");
  c.labelIf(dlon != 0 && std::fabs(dlon) < 1e-3, "near-central-meridian(<1e-3rad)");
  c.commit();

  EarthEllipsoid el = makeEllipsoid(s);
  LambertConverter cv = makeConverter(s);
  double lat = s.lat0 + dlat, lon = s.lon0 + dlon;
  Eigen::Vector2d P = fwd(cv, lat, lon);
  VF_CHECK(c, P.allFinite(), "toLambert non-finite at lat=%.17g lon=%.17g", lat, lon);

  // (i) conformality at the point
  double km, kp, ca;
  scales(cv, el, lat, lon, km, kp, ca);
  double conf = std::fabs(km / kp - 1.0);
  c.maxStat("conformality |km/kp-1|", conf);
  c.maxStat("orthogonality |cos|", std::fabs(ca));
  VF_CHECK(c, conf <= 5e-9, "not conformal: meridian scale %.12g vs parallel scale %.12g at lat=%.9g dlon=%.9g", km, kp, lat, dlon);
  VF_CHECK(c, std::fabs(ca) <= 5e-9, "images of meridian and parallel are not orthogonal: cos=%.3g", ca);

  // (ii) true scale on the standard parallel(s)
  if (s.tangent) {
    scales(cv, el, s.lat0, s.lon0 + lonAtParallel, km, kp, ca);
    c.maxStat("scale-error-on-parallel", std::max(std::fabs(km - s.k0), std::fabs(kp - s.k0)));
    c.check(std::fabs(km - s.k0) <= 5e-9 && std::fabs(kp - s.k0) <= 5e-9,
      vf::fmt("scale on the tangent parallel is (%.12g, %.12g), expected k0=%.12g", km, kp, s.k0));
  } else {
    for (double lp : {s.lat1, s.lat2}) {
      scales(cv, el, lp, s.lon0 + lonAtParallel, km, kp, ca);
      c.maxStat("scale-error-on-parallel", std::max(std::fabs(km - 1), std::fabs(kp - 1)));
      c.check(std::fabs(km - 1) <= 5e-9 && std::fabs(kp - 1) <= 5e-9,
        vf::fmt("scale on standard parallel %.9g rad is (%.12g, %.12g), expected 1", lp, km, kp));
    }
  }

  // (iii) origin -> false origin ; (iv) central meridian -> x = x0
  Eigen::Vector2d O = fwd(cv, s.lat0, s.lon0);
  double od = std::max(std::fabs(O.x() - s.x0), std::fabs(O.y() - s.y0));
  c.maxStat("origin-image-error[m]", od);
  VF_CHECK(c, od <= 1e-7, "projection origin maps to (%.9f,%.9f), false origin is (%.9f,%.9f)", O.x(), O.y(), s.x0, s.y0);
  Eigen::Vector2d Mer = fwd(cv, lat, s.lon0);
  VF_CHECK(c, std::fabs(Mer.x() - s.x0) <= 1e-7, "central meridian maps to x=%.9f, expected x0=%.9f", Mer.x(), s.x0);
  // north is up on the central meridian (orientation): y increases with latitude
  Eigen::Vector2d Mer2 = fwd(cv, lat + 1e-4, s.lon0);
  c.check(Mer2.y() > Mer.y(), "y does not increase with latitude on the central meridian");
  // east is to the right
  if (std::fabs(dlon) > 1e-9) {
    VF_CHECK(c, (P.x() - s.x0) * dlon > 0, "point %.6g rad %s of the central meridian maps to x-x0=%.6g", std::fabs(dlon), dlon > 0 ? "east" : "west", P.x() - s.x0);
  }

  // (v) inverse o forward
  WGS84Coordinates back = cv.toWGS84(P);
  c.check(std::isfinite(back.latitude) && std::isfinite(back.longitude), "toWGS84 non-finite");
  double el1 = std::fabs(back.latitude - lat), el2 = std::fabs(back.longitude - lon);
  c.maxStat("inverse-dlat[rad]", el1);
  c.maxStat("inverse-dlon[rad]", el2);
  VF_CHECK(c, el1 <= 1e-11, "inverse latitude error %.3g rad (lat=%.17g)", el1, lat);
  VF_CHECK(c, el2 <= 1e-11, "inverse longitude error %.3g rad (lon=%.17g lon0=%.17g)", el2, lon, s.lon0);

  // (v') the inverse is a function of its argument only: a second point 0.05 .. 0.9 mm further north, inverted with the
  // SAME converter object right after the first one, comes back as itself (not as its predecessor)
  {
    double step = (0.05 + 0.85 * std::fabs(std::sin(1e3 * lat))) * 1e-3;           // metres along the meridian
    double lat2 = lat + step / 6.4e6;
    Eigen::Vector2d P2 = fwd(cv, lat2, lon);
    WGS84Coordinates b2 = cv.toWGS84(P2);
    double e2 = std::fabs(b2.latitude - lat2);
    c.maxStat("inverse-dlat-of-a-neighbouring-point[rad]", e2);
    VF_CHECK(c, e2 <= 1e-11 && std::fabs(b2.longitude - lon) <= 1e-11,
      "inverse of a point %.3g m north of the previous one (same converter) is off by %.3g rad in latitude", step, e2);
  }

  // (vi) metamorphic: shifting lon and lon0 together; mirroring in the equator
  Setup sh = s; sh.lon0 = s.lon0 + shift;
  Eigen::Vector2d Ps = fwd(makeConverter(sh), lat, sh.lon0 + dlon);
  double dsh = (Ps - P).norm();
  c.maxStat("longitude-shift-invariance[m]", dsh);
  VF_CHECK(c, dsh <= 1e-6, "image moved by %.3g m when lon and lon0 were shifted together", dsh);
  Setup mi = s; mi.lat0 = -s.lat0; mi.lat1 = -s.lat1; mi.lat2 = -s.lat2;
  Eigen::Vector2d Pm = fwd(makeConverter(mi), -lat, lon);
  double dmi = std::max(std::fabs(Pm.x() - P.x()), std::fabs((Pm.y() - s.y0) + (P.y() - s.y0)));
  c.maxStat("equator-mirror-symmetry[m]", dmi);
  VF_CHECK(c, dmi <= 1e-6, "mirrored configuration is not the mirror image (%.3g m): (%.6f,%.6f) vs (%.6f,%.6f)", dmi, P.x(), P.y(), Pm.x(), Pm.y());
}

const std::vector<vf::Sub> kSubs = {
  {"projection", projection,
    "secant sets (parallels 1..20 deg apart inside 15..75 deg of either hemisphere, either order, lat0 between them or up to 3 deg "
    "outside), tangent sets (lat0 in +-[15,75] deg, k0 in [0.99,1]), random a (0.1%) and e in [0,0.1] incl. sphere, any lon0, false "
    "origin up to 1e7 m; plus the table Lambert-93, CC42..CC50, Lambert I-IV / II etendu. Point within +-8 deg latitude and +-30 deg "
    "longitude of the origin. Non-trivial: every case (none coincides with the two pinned test points)."},
};

}  // namespace

VF_HARNESS(kSubs)
