// C13 - Grid index mapping puts each in-range point in the in-bounds cell containing it
#include "vf_main.hpp"

#include <Eigen/Core>
#include <algorithm>
#include <array>
#include <memory>
#include "romea_core_common/containers/grid/GridIndexMapping.hpp"

namespace {

const double BOUND = 1e3;        // bounds of the extent lie in [-1e3, 1e3]
const double MAX_CELLS = 1e7;    // quantifier: at most 1e7 cells in total

// nearest value of the scalar type, as a double (every quantity the library sees is such a value)
template<typename S>
double rnd(double v) {return static_cast<double>(static_cast<S>(v));}

template<typename S>
double nudge(double v, int ulps)
{
  S x = static_cast<S>(v);
  for (int k = 0; k < std::abs(ulps); ++k) {
    x = std::nextafter(x, ulps > 0 ? std::numeric_limits<S>::infinity() : -std::numeric_limits<S>::infinity());
  }
  return static_cast<double>(x);
}

double clampd(double v, double lo, double hi) {return v < lo ? lo : (v > hi ? hi : v);}

struct Axis
{
  double lo = 0, hi = 0;   // exactly representable in the scalar type, lo <= hi, both in [-1e3,1e3]
  double fl = 0;           // floor(lo/res) computed in double from the scalar values (harness estimate)
  double nEst = 1;         // harness estimate of the number of cells (generation only, never an oracle)
  bool multiple = false, half = false, degenerate = false;
};

const double kDecimalRes[] = {1, 0.1, 0.01, 1e-3, 0.5, 0.25, 0.2, 0.05, 0.02, 0.005, 0.002, 2, 2.5, 5, 10, 0.3,
  0.7, 3, 0.15};
const int kNDecimalRes = sizeof(kDecimalRes) / sizeof(kDecimalRes[0]);

template<typename S>
double genRes(vf::Ctx & c, bool fine)
{
  double res;
  if (fine) {
    // resolutions that let an axis reach 1e5..2e6 cells inside [-1e3,1e3]
    size_t k = c.s.pick("res_fine", {2, 2, 1, 2});
    res = (k == 0) ? 1e-3 : (k == 1 ? 0.001953125 : (k == 2 ? 0.002 : c.s.rlog("res", 1e-3, 8e-3)));
    c.label(k == 1 ? "res-pow2" : (k == 3 ? "res-loguniform" : "res-decimal"));
  } else {
    size_t k = c.s.pick("res_kind", {3, 2, 3});
    if (k == 0) {
      res = kDecimalRes[c.s.i("res_dec", 0, kNDecimalRes - 1)];
      c.label("res-decimal");
    } else if (k == 1) {
      res = std::ldexp(1.0, static_cast<int>(c.s.i("res_pow2", -9, 3)));
      c.label("res-pow2");
    } else {
      res = c.s.rlog("res", 1e-3, 10.0);
      c.label("res-loguniform");
    }
  }
  res = rnd<S>(res);
  if (res < 1e-3) {res = nudge<S>(res, 1);}   // keep the scalar value inside the quantifier [1e-3,10]
  if (res > 10.0) {res = 10.0;}
  return res;
}

// k*res or (k+0.5)*res exactly as a user writing it in the scalar type would obtain it
template<typename S>
double latticeValue(double k, bool halfStep, double res)
{
  return rnd<S>((k + (halfStep ? 0.5 : 0.0)) * res);
}

// one axis of a general interval: at most `cap` cells
template<typename S>
Axis genAxis(vf::Ctx & c, double res, double cap)
{
  Axis a;
  const double wmax = (cap > 4) ? std::min(2 * BOUND, (cap - 4) * res) : 0.0;
  size_t kind = c.s.pick("b_kind", {3, 2, 2, 1, 1});
  const double kmin = std::ceil(-BOUND / res) + 1, kmax = std::floor(BOUND / res) - 1;
  if (wmax <= 0 && kind != 4) {kind = 4;}
  if (kmax <= kmin && kind >= 1 && kind <= 3) {kind = 0;}
  switch (kind) {
    case 0: {
        double w = c.s.r("b_w", 0.0, wmax);
        double lo = c.s.r("b_lo", -BOUND, BOUND - w);
        a.lo = rnd<S>(lo);
        a.hi = rnd<S>(lo + w);
        break;
      }
    case 1: case 2: case 3: {
        int64_t wk = c.s.i("b_wk", 0, static_cast<int64_t>(std::min(std::floor(wmax / res), kmax - kmin)));
        int64_t k0 = c.s.i("b_k", static_cast<int64_t>(kmin), static_cast<int64_t>(kmax) - wk);
        bool loHalf = (kind == 2), hiHalf = (kind == 2);
        if (kind == 3) {
          loHalf = c.s.flag("b_lo_half");
          hiHalf = !loHalf;
          if (wk == 0 && loHalf) {wk = 1;}   // keep lo <= hi: k0+0.5 <= k0+wk
        }
        a.lo = latticeValue<S>(static_cast<double>(k0), loHalf, res);
        a.hi = latticeValue<S>(static_cast<double>(k0 + wk), hiHalf, res);
        a.multiple = (kind == 1);
        a.half = (kind == 2);
        if (hiHalf && a.hi < 0) {c.label("upper-bound-negative-half-multiple");}
        if (loHalf && a.lo > 0) {c.label("lower-bound-positive-half-multiple");}
        break;
      }
    default: {
        size_t dk = c.s.pick("b_deg_kind", {1, 1, 1});
        if (dk == 0 || kmax <= kmin) {
          a.lo = rnd<S>(c.s.r("b_lo", -BOUND, BOUND));
        } else {
          int64_t k0 = c.s.i("b_k", static_cast<int64_t>(kmin), static_cast<int64_t>(kmax));
          a.lo = latticeValue<S>(static_cast<double>(k0), dk == 2, res);
        }
        a.hi = a.lo;
        a.degenerate = true;
      }
  }
  a.lo = clampd(a.lo, -BOUND, BOUND);
  a.hi = clampd(a.hi, -BOUND, BOUND);
  if (a.hi < a.lo) {a.hi = a.lo;}
  return a;
}

void finishAxis(Axis & a, double res)
{
  a.fl = std::floor(a.lo / res);
  a.nEst = std::ceil(a.hi / res) - a.fl + 1;
  if (a.nEst < 1) {a.nEst = 1;}
}

// one coordinate of a point inside [lo,hi] (scalar values)
template<typename S>
double genCoord(vf::Ctx & c, const Axis & a, double res, size_t kind, bool & onLattice, bool & onBound)
{
  double v;
  switch (kind) {
    case 0: v = rnd<S>(c.s.uni("p_u", a.lo, a.hi)); break;
    case 1: v = a.lo; break;
    case 2: v = a.hi; break;
    case 3: {
        // half-steps of the cell lattice: even = border between two cells, odd = cell centre
        int64_t k2 = c.s.i("p_k2", 0, static_cast<int64_t>(2 * a.nEst));
        int ulps = static_cast<int>(c.s.i("p_ulp", -2, 2));
        v = nudge<S>(rnd<S>(res * (a.fl - 0.5 + 0.5 * static_cast<double>(k2))), ulps);
        if (k2 % 2 == 0 && v >= a.lo && v <= a.hi) {onLattice = true;}
        break;
      }
    default: {
        bool up = c.s.flag("p_up");
        int j = static_cast<int>(c.s.i("p_j", 0, 4));
        v = up ? nudge<S>(a.hi, -j) : nudge<S>(a.lo, j);
      }
  }
  v = clampd(v, a.lo, a.hi);
  if (v == a.lo || v == a.hi) {onBound = true;}
  return v;
}

template<typename S, size_t D>
void body(vf::Ctx & c)
{
  using Map = romea::core::GridIndexMapping<S, D>;
  using Pt = typename Map::PointType;
  using Idx = typename Map::CellIndexes;
  const double eps = vf::epsOf<S>();

  // ------------------------------------------------------------------ generation
  const size_t shape = c.s.pick("shape", {8, 1, 1});   // regular / elongated / thin (one axis up to 2e6 cells)
  const size_t ctor = (shape == 0) ? c.s.pick("ctor", {1, 1}) : 1;   // 0 maximal range, 1 general interval
  const double res = genRes<S>(c, shape == 2);
  const double nmax = std::floor(std::pow(MAX_CELLS, 1.0 / D));  // 3162 (2-D), 215 (3-D)
  std::array<Axis, D> ax;
  double R = 0;
  if (ctor == 0) {
    const double rmax = std::min(BOUND, 0.5 * (nmax - 4) * res);
    size_t rk = c.s.pick("R_kind", {2, 2, 2});
    if (rk == 0) {
      R = rnd<S>(c.s.r("R", 0.0, rmax));
    } else {
      int64_t k = c.s.i("R_k", 0, static_cast<int64_t>(std::floor(rmax / res)) - 1);
      R = latticeValue<S>(static_cast<double>(k), rk == 2, res);
    }
    R = clampd(R, 0.0, BOUND);
    for (size_t d = 0; d < D; ++d) {
      ax[d].lo = -R; ax[d].hi = R;
      ax[d].multiple = (rk == 1); ax[d].half = (rk == 2); ax[d].degenerate = (R == 0);
    }
    c.label("ctor-maximal-range");
  } else {
    std::array<double, D> cap;
    cap.fill(nmax);
    if (shape != 0) {
      size_t la = static_cast<size_t>(c.s.i("long_axis", 0, D - 1));
      for (size_t d = 0; d < D; ++d) {
        if (shape == 1) {cap[d] = (d == la) ? 1e5 : (D == 2 ? 100 : 10);} else {
          cap[d] = (d == la) ? (D == 2 ? 2e6 : 1e6) : 3;   // the other axes get a zero-width extent (<= 2 cells)
        }
      }
    }
    for (size_t d = 0; d < D; ++d) {ax[d] = genAxis<S>(c, res, cap[d]);}
    if (shape == 0 && c.s.flag("congruent_axes", 1, 4)) {
      // all axes get the extent of the first one shifted by a few cells (equal widths, hence mostly equal cell counts,
      // lower bounds that differ only slightly relative to their magnitude): "identical axes" shortcuts must not
      // mistake them for identical
      for (size_t d = 1; d < D; ++d) {
        double shift = static_cast<double>(c.s.i("congruent_shift_cells_x4", -12, 12)) * 0.25 * res;
        double lo = rnd<S>(ax[0].lo + shift), hi = rnd<S>(ax[0].hi + shift);
        if (lo >= -BOUND && hi <= BOUND && lo <= hi) {
          ax[d] = ax[0];
          ax[d].lo = lo; ax[d].hi = hi; ax[d].multiple = false; ax[d].half = false;
        }
      }
      c.label("congruent-axes(shifted-by-a-few-cells)");
    }
    c.label("ctor-interval");
  }
  double total = 1, longest = 0;
  bool anyMultiple = false, anyHalf = false, anyDeg = false;
  for (size_t d = 0; d < D; ++d) {
    finishAxis(ax[d], res);
    total *= ax[d].nEst;
    longest = std::max(longest, ax[d].nEst);
    anyMultiple = anyMultiple || ax[d].multiple;
    anyHalf = anyHalf || ax[d].half;
    anyDeg = anyDeg || ax[d].degenerate;
  }
  if (total > MAX_CELLS) {c.skip();}   // outside the quantifier (never expected: caps leave slack)
  c.labelIf(anyMultiple, "bounds-exact-multiples");
  c.labelIf(anyHalf, "bounds-half-multiples");
  c.labelIf(anyDeg, "zero-width-axis");
  c.labelIf(longest > 1e5, "thin-extent(>1e5 cells on an axis)");
  c.labelIf(longest > 1e6, "thin-extent(>1e6 cells on an axis)");
  const bool nonIntegerRes = (res != std::floor(res));
  c.labelIf(nonIntegerRes, "non-integer-resolution");

  // points: a few fully recorded structured ones + a seeded bulk
  std::vector<std::array<double, D>> pts;
  bool anyBorder = false, anyBound = false, anyCorner = false, anyCellCorner = false;
  const int nDirect = static_cast<int>(c.s.len("n_pts", 1, 12));
  for (int k = 0; k < nDirect; ++k) {
    std::array<double, D> p;
    size_t pk = c.s.pick("p_kind", {3, 2, 2, 4, 1});
    size_t boundAxis = (pk == 2) ? static_cast<size_t>(c.s.i("p_axis", 0, D - 1)) : 0;
    size_t nLat = 0, nBnd = 0;
    for (size_t d = 0; d < D; ++d) {
      size_t ck;
      switch (pk) {
        case 0: ck = 0; break;
        case 1: ck = c.s.flag("p_hi") ? 2 : 1; break;
        case 2: ck = (d == boundAxis) ? (c.s.flag("p_hi") ? 2 : 1) : 0; break;
        case 3: ck = 3; break;
        default: ck = c.s.pick("p_ck", {1, 1, 1, 2, 2});
      }
      bool lat = false, bnd = false;
      p[d] = genCoord<S>(c, ax[d], res, ck, lat, bnd);
      nLat += lat; nBnd += bnd;
    }
    anyBorder = anyBorder || nLat > 0;
    anyBound = anyBound || nBnd > 0;
    anyCorner = anyCorner || nBnd == D;
    anyCellCorner = anyCellCorner || nLat == D;
    pts.push_back(p);
  }
  vf::Rng rng(c.s.seed("bulk_seed"));
  for (int k = 0; k < 40; ++k) {
    std::array<double, D> p;
    for (size_t d = 0; d < D; ++d) {
      const Axis & a = ax[d];
      double u = rng.u(), v;
      if (u < 0.55) {
        v = rnd<S>(rng.uniform(a.lo, a.hi));
      } else if (u < 0.85) {
        int64_t k2 = rng.range(0, static_cast<int64_t>(2 * a.nEst));
        v = nudge<S>(rnd<S>(res * (a.fl - 0.5 + 0.5 * static_cast<double>(k2))), static_cast<int>(rng.range(-1, 1)));
      } else {
        v = (rng.u() < 0.5) ? a.lo : a.hi;
      }
      p[d] = clampd(v, a.lo, a.hi);
    }
    pts.push_back(p);
  }
  vf::Rng chk(c.s.seed("index_seed"));
  c.labelIf(anyBorder, "point-on-cell-border");
  c.labelIf(anyBound, "point-on-extent-bound");
  c.labelIf(anyCorner, "point-on-extent-corner");
  c.labelIf(anyCellCorner, "point-on-cell-corner");
  c.nontrivial(nonIntegerRes || anyBorder || anyBound);
  const int madeBy = static_cast<int>(c.s.pick("mapping_made_by", {3, 1, 1}));   // directly / copy constructed / copy assigned
  if (madeBy != 0) {c.label("mapping-is-a-copy(source-reassigned-and-destroyed)");}
  c.commit();

  // ------------------------------------------------------------------ library under test
  std::unique_ptr<Map> mp;
  if (ctor == 0) {
    mp.reset(new Map(static_cast<S>(R), static_cast<S>(res)));
  } else {
    Pt lo, hi;
    for (size_t d = 0; d < D; ++d) {lo[d] = static_cast<S>(ax[d].lo); hi[d] = static_cast<S>(ax[d].hi);}
    mp.reset(new Map(romea::core::Interval<S, D>(lo, hi), static_cast<S>(res)));
  }
  if (madeBy != 0) {
    // value semantics: the mapping under test is a copy; its source is then re-assigned to another grid and destroyed,
    // so anything the copy still shares with it shows
    std::unique_ptr<Map> source(std::move(mp));
    if (madeBy == 1) {
      mp.reset(new Map(*source));
    } else {
      mp.reset(new Map(static_cast<S>(3), static_cast<S>(1)));
      *mp = *source;
    }
    *source = Map(static_cast<S>(7), static_cast<S>(0.5));
    source.reset();
  }
  const Map & m = *mp;
  c.check(static_cast<double>(m.getCellResolution()) == res, "getCellResolution() differs from the resolution given");

  const Idx n = m.getNumberOfCellsAlongAxes();
  std::array<double, D> tol;
  for (size_t d = 0; d < D; ++d) {
    const Axis & a = ax[d];
    // T: 4 eps max(|lo|,|hi|,res): rounding of origin, of (p-origin), of the quotient and of the centre table
    tol[d] = 4 * eps * std::max(std::max(std::fabs(a.lo), std::fabs(a.hi)), res);
    const std::vector<S> & tab = m.getCellCentersPositionAlong(d);
    c.check(n[d] >= 1, vf::fmt("axis %zu: zero cells for the extent [%.17g,%.17g] res %.17g", d, a.lo, a.hi, res));
    c.check(tab.size() == n[d], vf::fmt("axis %zu: centre table has %zu entries for %zu cells", d, tab.size(), n[d]));
    // first/last cells cover the bounds (closed cells, tolerance on the edges)
    const double first = static_cast<double>(tab.front()), last = static_cast<double>(tab.back());
    c.maxStat("lower-bound-below-first-cell/tol", ((first - res / 2) - a.lo) / tol[d]);
    c.maxStat("upper-bound-above-last-cell/tol", (a.hi - (last + res / 2)) / tol[d]);
    c.check(first - res / 2 <= a.lo + tol[d],
      vf::fmt("axis %zu: first cell [%.17g +- res/2] does not reach down to the lower bound %.17g (res %.17g)", d, first, a.lo, res));
    c.check(last + res / 2 >= a.hi - tol[d],
      vf::fmt("axis %zu: last cell [%.17g +- res/2] does not reach up to the upper bound %.17g (res %.17g)", d, last, a.hi, res));
    // ... and the bounds lie between the first and the last centre (grid origin snapped DOWN to a centre,
    // last centre snapped UP: this is the reading of "cover" that the cell count floor/ceil implements and that the
    // repository's tests pin on integer bounds: extent [-1,1] res 1 -> 3 cells, centre 0 at -1)
    c.maxStat("first-centre-above-lower-bound/tol", (first - a.lo) / tol[d]);
    c.maxStat("last-centre-below-upper-bound/tol", (a.hi - last) / tol[d]);
    // NOT asserted: "first centre <= lower bound" / "last centre >= upper bound". The floor/ceil code happens to
    // guarantee it, but the property only says the first and last *cells* cover the bounds; an implementation that
    // snaps the origin differently for non-integer bounds still satisfies the statement (measured above for the record).
    // spacing of consecutive centres: res +- tol (all of them up to 4096 cells, else ends + a sample)
    auto spacing = [&](size_t k) {
        double dd = static_cast<double>(tab[k + 1]) - static_cast<double>(tab[k]);
        c.maxStat("spacing-error/tol", std::fabs(dd - res) / tol[d]);
        c.check(std::fabs(dd - res) <= tol[d],
          vf::fmt("axis %zu: centres %zu and %zu are %.17g apart, resolution %.17g (tol %.3g)", d, k, k + 1, dd, res, tol[d]));
      };
    if (n[d] >= 2) {
      if (n[d] <= 4096) {
        for (size_t k = 0; k + 1 < n[d]; ++k) {spacing(k);}
      } else {
        for (size_t k = 0; k < 64; ++k) {spacing(k); spacing(n[d] - 2 - k);}
        for (int q = 0; q < 1500; ++q) {spacing(static_cast<size_t>(chk.below(n[d] - 1)));}
      }
    }
  }

  // centre(i) -> i (crisp: a centre is half a cell away from the borders) and centre(i) == table entries
  auto roundTrip = [&](const Idx & i) {
      Pt ctr = m.computeCellCenterPosition(i);
      for (size_t d = 0; d < D; ++d) {
        c.check(ctr[d] == m.getCellCentersPositionAlong(d)[i[d]], "computeCellCenterPosition differs from the centre table");
      }
      Idx back = m.computeCellIndexes(ctr);
      for (size_t d = 0; d < D; ++d) {
        c.check(back[d] == i[d],
          vf::fmt("axis %zu: centre of cell %zu (%.17g) maps to cell %zu (res %.17g, extent [%.17g,%.17g])", d, i[d],
          static_cast<double>(ctr[d]), back[d], res, ax[d].lo, ax[d].hi));
      }
    };
  for (unsigned mask = 0; mask < (1u << D); ++mask) {
    Idx i;
    for (size_t d = 0; d < D; ++d) {i[d] = ((mask >> d) & 1) ? n[d] - 1 : 0;}
    roundTrip(i);
  }
  {
    size_t sweeps = 0;
    for (size_t d = 0; d < D; ++d) {sweeps = std::max(sweeps, std::min<size_t>(n[d], 600));}
    for (size_t q = 0; q < sweeps; ++q) {
      Idx i;
      for (size_t d = 0; d < D; ++d) {
        // every index of short axes, ends + random sample of long ones
        if (n[d] <= 600) {i[d] = q % n[d];} else {
          i[d] = (q < 32) ? q : (q < 64 ? n[d] - 1 - (q - 32) : static_cast<size_t>(chk.below(n[d])));
        }
      }
      roundTrip(i);
    }
  }

  // every point of the closed extent: in-bounds indexes (crisp), within half a resolution (+tol) of its cell's centre
  for (const auto & p : pts) {
    Pt q;
    for (size_t d = 0; d < D; ++d) {q[d] = static_cast<S>(p[d]);}
    Idx i = m.computeCellIndexes(q);
    for (size_t d = 0; d < D; ++d) {
      c.check(i[d] < n[d],
        vf::fmt("axis %zu: point %.17g of the extent [%.17g,%.17g] maps to cell %zu of %zu (res %.17g)", d, p[d], ax[d].lo,
        ax[d].hi, i[d], n[d], res));
    }
    Pt ctr = m.computeCellCenterPosition(i);
    for (size_t d = 0; d < D; ++d) {
      double dist = std::fabs(p[d] - static_cast<double>(ctr[d]));
      double over = dist - res / 2;
      c.maxStat("half-cell-overshoot/tol", over / tol[d]);
      c.maxStat("half-cell-overshoot[cells]", over / res);
      c.check(over <= tol[d],
        vf::fmt("axis %zu: point %.17g maps to cell %zu whose centre %.17g is %.17g away: more than res/2 = %.17g + tol %.3g "
        "(extent [%.17g,%.17g])", d, p[d], i[d], static_cast<double>(ctr[d]), dist, res / 2, tol[d], ax[d].lo, ax[d].hi));
    }
  }
}

#define RULE \
  "resolution in [1e-3,10]: round decimals / powers of two / log-uniform; extent: maximal-range form (R generic, k*res, " \
  "(k+1/2)*res) or general interval with per-axis bounds generic / exact multiples / half-multiples / mixed / zero width, " \
  "all in [-1e3,1e3]; shapes regular (<= 1e7^(1/D) cells per axis), elongated (1e5 x 100 | 10 x 10), thin (one axis up to " \
  "2e6 (2-D) / 1e6 (3-D) cells, others zero width); <= 1e7 cells. 1..12 recorded points (uniform, extent corners, one " \
  "axis on a bound, cell borders/centres/corners +-0..2 ulp, bounds +-0..4 ulp) + 40 seeded points (55 % uniform, 30 % " \
  "lattice +-1 ulp, 15 % bounds). Non-trivial: non-integer resolution, or a recorded point on a cell border or an extent bound."

const std::vector<vf::Sub> kSubs = {
  {"double2", body<double, 2>, RULE},
  {"double3", body<double, 3>, RULE},
  {"float2", body<float, 2>, RULE},
  {"float3", body<float, 3>, RULE},
};

}  // namespace

VF_HARNESS(kSubs)
