// C20 - Bounding volumes and point-set extents enclose exactly what they should
#include "vf_main.hpp"

#include <Eigen/Core>
#include <Eigen/Geometry>
#include <deque>
#include <list>
#include "romea_core_common/containers/boundingbox/AxisAlignedBoundingBox.hpp"
#include "romea_core_common/containers/boundingbox/OrientedBoundingBox.hpp"
#include "romea_core_common/math/Interval.hpp"
#include "romea_core_common/containers/Eigen/EigenContainers.hpp"
#include "romea_core_common/pointset/algorithms/PointSetPreconditioner.hpp"

using namespace romea::core;

namespace {

typedef long double LD;

template<typename S> const char * scalarName();
template<> const char * scalarName<float>() {return "float";}
template<> const char * scalarName<double>() {return "double";}

// dyadic constants: |c| <= 1024, 6 fractional bits; h in [0,512] - c +- h is exact in float and double
template<typename S, size_t D>
void genBox(vf::Ctx & c, Eigen::Matrix<S, D, 1> & ctr, Eigen::Matrix<S, D, 1> & half, bool & zeroExtent)
{
  static const char * cn[3] = {"cx", "cy", "cz"}, * hn[3] = {"hx", "hy", "hz"};
  zeroExtent = false;
  for (size_t d = 0; d < D; ++d) {
    ctr[d] = static_cast<S>(c.s.dyadic(cn[d], -1024.0, 1024.0, 6));
    size_t hk = c.s.pick("h_class", {1, 6});
    half[d] = hk == 0 ? S(0) : static_cast<S>(c.s.dyadic(hn[d], 0.0, 512.0, 6));
    if (half[d] == S(0)) {zeroExtent = true;}
  }
}

// coordinate of a query point in the box frame, relative to the centre, with the exact verdict class
// returns q and sets outside = true when |q| > h
template<typename S>
LD genFrameCoord(vf::Ctx & c, S h, bool exactFrame, S margin, bool & outside, bool & onFace)
{
  size_t k = c.s.pick("q_class", {2, 3, 2, 2, 3, 2, 1});
  bool neg = c.s.flag("q_neg");
  LD sg = neg ? -1.0L : 1.0L;
  outside = false; onFace = false;
  LD hh = h;
  if (!exactFrame && h == S(0) && k != 3 && k != 5 && k != 6) {
    // a zero-thickness box under an inexact rotation has no interior with a margin: only clearly outside
    // coordinates are decidable
    outside = true;
    return sg * 3.0L * margin;
  }
  switch (k) {
    case 0: return 0.0L;                                            // centre
    case 1: if (exactFrame) {onFace = true; return sg * hh;}        // exactly on the face (closed: inside)
      return sg * std::max<LD>(0.0L, hh - margin);
    case 2: {                                                       // one ulp (exact frame) / margin inside
        if (exactFrame) {onFace = true; return sg * hh;}  // ulp neighbours are applied in world coordinates by the caller
        return sg * std::max<LD>(0.0L, hh - 2 * margin);
      }
    case 3: outside = true; return sg * (hh + (exactFrame ? static_cast<LD>(c.s.dyadic("q_out", 1.0 / 64, 8.0, 6)) : 2 * margin + margin));
    case 4: {                                                       // strictly inside, dyadic fraction of h
        int64_t f = c.s.i("q_frac64", 0, 63);
        LD v = hh * f / 64.0L;
        if (!exactFrame && v > hh - margin) {v = std::max<LD>(0.0L, hh - margin);}
        return sg * v;
      }
    case 5: outside = true; return sg * (hh + static_cast<LD>(c.s.dyadic("q_far", 1.0, 4096.0, 2)));
    default: outside = true; return sg * (hh + 1.0e6L);
  }
}

template<typename S, size_t D>
void aabbBody(vf::Ctx & c)
{
  using P = Eigen::Matrix<S, D, 1>;
  P ctr, half;
  bool zeroExt;
  genBox<S, D>(c, ctr, half, zeroExt);
  // query point, per axis: class + optional one-ulp nudge applied in the scalar type
  P p;
  bool expectInside = true, boundary = false;
  static const char * nudgeName[3] = {"nudge_x", "nudge_y", "nudge_z"};
  for (size_t d = 0; d < D; ++d) {
    bool out, face;
    LD q = genFrameCoord<S>(c, half[d], true, S(0), out, face);
    S v = static_cast<S>(static_cast<LD>(ctr[d]) + q);   // exact: dyadic, small
    // -1: one step toward the centre, +1: one step away. The step is one ulp of the data scale (2048), not
    // of the coordinate: then c+-h+-step and (p - c) = h +- step are all exactly representable, so every
    // way of writing the closed comparison gives the same verdict (a nudge of one ulp of p can vanish in the
    // rounding of p - c when |p| < h; demanding a verdict there would ask more than floating point offers).
    int64_t nudge = face ? c.s.i(nudgeName[d], -1, 1) : 0;
    if (nudge != 0) {
      const S step = std::nextafter(S(2048), std::numeric_limits<S>::infinity()) - S(2048);
      S dir = (q >= 0 ? S(1) : S(-1)) * (nudge > 0 ? S(1) : S(-1));
      v = v + dir * step;
      if (nudge > 0) {out = true;} else if (half[d] == S(0)) {out = true;}  // zero extent: any nudge leaves
      boundary = true;
    } else if (face) {boundary = true;}
    p[d] = v;
    // exact verdict in long double
    LD dist = fabsl(static_cast<LD>(v) - static_cast<LD>(ctr[d]));
    bool in = dist <= static_cast<LD>(half[d]);
    c.harnessCheck(in == !out, "verdict class disagrees with exact arithmetic");
    expectInside = expectInside && in;
  }
  if (boundary) {c.label("face/edge/corner-or-ulp-neighbour");}
  if (zeroExt) {c.label("zero-extent");}
  c.label(scalarName<S>());
  c.nontrivial(boundary || zeroExt);
  c.commit();

  AxisAlignedBoundingBox<S, D> box(ctr, half);
  bool got = box.isInside(p);
  if (got != expectInside) {
    c.fail(vf::fmt("AABB<%s,%zu>::isInside returned %d, exact componentwise |p-c|<=h says %d (c0=%.9g h0=%.9g p0=%.17g)",
      scalarName<S>(), D, got, expectInside, static_cast<double>(ctr[0]), static_cast<double>(half[0]), static_cast<double>(p[0])));
  }
  // interval -> box -> interval reproduces the interval (<= 2 ulp); accessors
  P lo = ctr - half, hi = ctr + half;  // exact
  Interval<S, D> iv(lo, hi);
  AxisAlignedBoundingBox<S, D> fromIv(iv);
  Interval<S, D> back = fromIv.toInterval();
  for (size_t d = 0; d < D; ++d) {
    S ulpLo = std::nextafter(std::fabs(lo[d]), std::numeric_limits<S>::infinity()) - std::fabs(lo[d]);
    S ulpHi = std::nextafter(std::fabs(hi[d]), std::numeric_limits<S>::infinity()) - std::fabs(hi[d]);
    c.check(std::fabs(back.lower()[d] - lo[d]) <= 2 * ulpLo && std::fabs(back.upper()[d] - hi[d]) <= 2 * ulpHi,
      vf::fmt("box(interval).toInterval() axis %zu: [%.17g,%.17g] became [%.17g,%.17g]", d, static_cast<double>(lo[d]),
      static_cast<double>(hi[d]), static_cast<double>(back.lower()[d]), static_cast<double>(back.upper()[d])));
  }
  c.check(fromIv.isInside(p) == expectInside, "box built from the interval disagrees with the box built from centre/half-extent");
  c.check(iv.inside(p) == expectInside, "Interval::inside disagrees with the closed componentwise test");
  c.check(box.getCenterPosition() == ctr && box.getHalfWidthExtents() == half, "accessors do not return the construction values");
}

// ---------------------------------------------------------------------------------------------------------
template<typename S, size_t D>
Eigen::Matrix<S, D, D> genRotation(vf::Ctx & c, bool & exact)
{
  Eigen::Matrix<S, D, D> R = Eigen::Matrix<S, D, D>::Identity();
  exact = c.s.flag("exact_rotation");
  if (D == 2) {
    if (exact) {
      int q = static_cast<int>(c.s.i("quarter_turns", 0, 3));
      S co[4] = {1, 0, -1, 0}, si[4] = {0, 1, 0, -1};
      R(0, 0) = co[q]; R(0, 1) = -si[q]; R(1, 0) = si[q]; R(1, 1) = co[q];
    } else {
      double a = c.s.r("angle", -3.141592653589793, 3.141592653589793);
      if (c.s.flag("tiny_angle", 1, 4)) {a = (c.s.flag("tiny_angle_negative") ? -1.0 : 1.0) * std::pow(10.0, -c.s.uni("tiny_angle_exp", 2.0, 12.0));}
      R(0, 0) = static_cast<S>(std::cos(a)); R(0, 1) = static_cast<S>(-std::sin(a));
      R(1, 0) = static_cast<S>(std::sin(a)); R(1, 1) = static_cast<S>(std::cos(a));
    }
  } else {
    if (exact) {
      // proper signed permutation: permutation index + two signs, third sign fixed by det = +1
      int perm = static_cast<int>(c.s.i("perm", 0, 5));
      static const int P[6][3] = {{0, 1, 2}, {0, 2, 1}, {1, 0, 2}, {1, 2, 0}, {2, 0, 1}, {2, 1, 0}};
      static const int parity[6] = {1, -1, -1, 1, 1, -1};
      int s0 = c.s.flag("sign0") ? -1 : 1, s1 = c.s.flag("sign1") ? -1 : 1;
      int s2 = parity[perm] * s0 * s1;
      R.setZero();
      R(P[perm][0], 0) = static_cast<S>(s0); R(P[perm][1], 1) = static_cast<S>(s1); R(P[perm][2], 2) = static_cast<S>(s2);
    } else {
      double qw = c.s.r("qw", -1, 1), qx = c.s.r("qx", -1, 1), qy = c.s.r("qy", -1, 1), qz = c.s.r("qz", -1, 1);
      if (c.s.flag("tiny_angle", 1, 4)) {
        // almost the identity: cos rounds to 1 while sin is still there
        double sc = std::pow(10.0, -c.s.uni("tiny_angle_exp", 2.0, 12.0));
        qw = 1; qx *= sc; qy *= sc; qz *= sc;
      }
      double n = std::sqrt(qw * qw + qx * qx + qy * qy + qz * qz);
      if (n < 1e-3) {qw = 1; qx = qy = qz = 0; n = 1;}
      Eigen::Quaterniond q(qw / n, qx / n, qy / n, qz / n);
      Eigen::Matrix3d Rd = q.toRotationMatrix();
      for (int i = 0; i < 3; ++i) {for (int j = 0; j < 3; ++j) {R(i, j) = static_cast<S>(Rd(i, j));}}
    }
  }
  return R;
}

template<typename S, size_t D>
void obbBody(vf::Ctx & c)
{
  using P = Eigen::Matrix<S, D, 1>;
  P ctr, half;
  bool zeroExt;
  genBox<S, D>(c, ctr, half, zeroExt);
  bool exact;
  Eigen::Matrix<S, D, D> R = genRotation<S, D>(c, exact);
  const S eps = std::numeric_limits<S>::epsilon();
  // verdict margin for inexact rotations: rounding of R^T (p - c) with |p|,|c| up to ~2e3 + far classes
  S scale = S(1);
  for (size_t d = 0; d < D; ++d) {scale = std::max(scale, std::fabs(ctr[d]) + half[d]);}
  LD q[3] = {0, 0, 0};
  bool expectInside = true, boundary = false, farAway = false;
  for (size_t d = 0; d < D; ++d) {
    bool out, face;
    // far classes enlarge the data magnitude, hence the margin
    S margin = exact ? S(0) : S(64) * eps * (scale + S(5000));
    q[d] = genFrameCoord<S>(c, half[d], exact, margin, out, face);
    if (fabsl(q[d]) > 1e5L) {farAway = true;}
    if (face) {boundary = true;}
    expectInside = expectInside && !out;
  }
  if (!exact && farAway) {
    // 1e6 away: rounding of the world coordinates is ~eps*1e6, far above the margin; verdict is still
    // unambiguous because the point is outside by 1e6
  }
  // world point p = c + R q, in long double, rounded to S
  P p;
  for (size_t i = 0; i < D; ++i) {
    LD v = ctr[i];
    for (size_t j = 0; j < D; ++j) {v += static_cast<LD>(R(i, j)) * q[j];}
    p[i] = static_cast<S>(v);
  }
  if (exact) {c.label("exact-rotation(signed permutation)");} else {c.label("random-rotation");}
  if (boundary) {c.label("face/edge/corner");}
  if (zeroExt) {c.label("zero-extent");}
  c.label(scalarName<S>());
  bool identity = (R - Eigen::Matrix<S, D, D>::Identity()).norm() == S(0);
  c.nontrivial(!identity);
  c.commit();

  OrientedBoundingBox<S, D> obb(ctr, half, R);
  bool got = obb.isInside(p);
  if (got != expectInside) {
    c.fail(vf::fmt("OBB<%s,%zu>::isInside returned %d, the point expressed in the box frame is (%.9Lg,%.9Lg,%.9Lg) with half extents (%.9g,%.9g,%.9g): expected %d (%s rotation)",
      scalarName<S>(), D, got, q[0], q[1], q[2], static_cast<double>(half[0]), static_cast<double>(half[1]), static_cast<double>(D == 3 ? half[D - 1] : S(0)), expectInside,
      exact ? "exact" : "random"));
  }
  // derived axis-aligned box: contains every corner of the oriented box and is tight
  AxisAlignedBoundingBox<S, D> aabb = obb.toAxisAlignedBoundingBox();
  c.check(aabb.getCenterPosition() == ctr, "derived AABB is not centred on the oriented box");
  LD tol = 8.0L * eps * scale;
  LD reach[3] = {0, 0, 0};
  for (unsigned mask = 0; mask < (1u << D); ++mask) {
    for (size_t i = 0; i < D; ++i) {
      LD v = 0;
      for (size_t j = 0; j < D; ++j) {v += static_cast<LD>(R(i, j)) * ((mask >> j) & 1 ? 1.0L : -1.0L) * static_cast<LD>(half[j]);}
      reach[i] = std::max(reach[i], fabsl(v));
    }
  }
  for (size_t i = 0; i < D; ++i) {
    LD h = aabb.getHalfWidthExtents()[i];
    c.maxStat("aabb-tightness-residual/eps*scale", static_cast<double>(fabsl(h - reach[i]) / (eps * scale)));
    VF_CHECK(c, h >= reach[i] - tol, "derived AABB half extent %.9Lg along axis %zu does not contain a corner reaching %.9Lg", h, i, reach[i]);
    VF_CHECK(c, h <= reach[i] + tol, "derived AABB half extent %.9Lg along axis %zu is not tight (farthest corner %.9Lg)", h, i, reach[i]);
  }
  // the query point, if inside the OBB by a margin, is inside the derived AABB
  if (expectInside && !boundary && exact) {c.check(aabb.isInside(p), "point inside the oriented box lies outside its derived AABB");}
  c.check(obb.getRotationMatrix() == R && obb.getCenterPosition() == ctr && obb.getHalfWidthExtents() == half, "OBB accessors");
}

// ---------------------------------------------------------------------------------------------------------
template<typename S, size_t D>
void intervalBody(vf::Ctx & c)
{
  using T = Eigen::Matrix<S, D, 1>;
  T lo1, hi1, lo2, hi2, v;
  static const char * names[5][3] = {{"a_lo_x", "a_lo_y", "a_lo_z"}, {"a_w_x", "a_w_y", "a_w_z"}, {"b_lo_x", "b_lo_y", "b_lo_z"}, {"b_w_x", "b_w_y", "b_w_z"}, {"v_x", "v_y", "v_z"}};
  bool touching = false, nested = true, disjoint = false;
  for (size_t d = 0; d < D; ++d) {
    lo1[d] = static_cast<S>(c.s.dyadic(names[0][d], -64, 64, 4));
    hi1[d] = lo1[d] + static_cast<S>(c.s.dyadic(names[1][d], 0, 64, 4));
    size_t rel = c.s.pick("relation", {2, 1, 1, 1});  // free, touching at the upper end, nested, disjoint
    if (rel == 1) {lo2[d] = hi1[d]; touching = true;} else if (rel == 2) {
      lo2[d] = lo1[d] + (hi1[d] - lo1[d]) / 4;
    } else if (rel == 3) {lo2[d] = hi1[d] + static_cast<S>(c.s.dyadic(names[2][d], 1.0 / 16, 64, 4)); disjoint = true;} else {
      lo2[d] = static_cast<S>(c.s.dyadic(names[2][d], -64, 64, 4));
    }
    S w2 = (rel == 2) ? (hi1[d] - lo1[d]) / 2 : static_cast<S>(c.s.dyadic(names[3][d], 0, 64, 4));
    hi2[d] = lo2[d] + w2;
    if (!(lo2[d] >= lo1[d] && hi2[d] <= hi1[d])) {nested = false;}
    // query value: an end point of either interval, one ulp off, or free
    size_t vk = c.s.pick("v_class", {1, 1, 1, 1, 2, 2});
    S base = vk == 0 ? lo1[d] : vk == 1 ? hi1[d] : vk == 2 ? lo2[d] : vk == 3 ? hi2[d] : static_cast<S>(c.s.dyadic(names[4][d], -200, 200, 4));
    int64_t nudge = (vk <= 4) ? c.s.i("v_nudge", -1, 1) : 0;
    if (nudge > 0) {base = std::nextafter(base, std::numeric_limits<S>::infinity());}
    if (nudge < 0) {base = std::nextafter(base, -std::numeric_limits<S>::infinity());}
    v[d] = base;
  }
  // (drawn last) ends that are not dyadic: the hull is made of comparisons, so the expectation is exact for any ends,
  // while arithmetic on the ends (centre +- half width, low + (high - low)) would only be exact for dyadic ones
  if (c.s.flag("ends_are_arbitrary_reals", 1, 3)) {
    static const char * an[5][3] = {{"ra_lo_x", "ra_lo_y", "ra_lo_z"}, {"ra_hi_x", "ra_hi_y", "ra_hi_z"}, {"rb_lo_x", "rb_lo_y", "rb_lo_z"},
      {"rb_hi_x", "rb_hi_y", "rb_hi_z"}, {"rv_x", "rv_y", "rv_z"}};
    for (size_t d = 0; d < D; ++d) {
      S x1 = static_cast<S>(c.s.r(an[0][d], -1e3, 1e3)), y1 = static_cast<S>(c.s.r(an[1][d], -1e3, 1e3));
      S x2 = static_cast<S>(c.s.r(an[2][d], -1e3, 1e3)), y2 = static_cast<S>(c.s.r(an[3][d], -1e3, 1e3));
      lo1[d] = std::min(x1, y1); hi1[d] = std::max(x1, y1); lo2[d] = std::min(x2, y2); hi2[d] = std::max(x2, y2);
      size_t vk = c.s.pick("rv_class", {1, 1, 1, 1, 2});
      v[d] = vk == 0 ? lo1[d] : vk == 1 ? hi1[d] : vk == 2 ? lo2[d] : vk == 3 ? hi2[d] : static_cast<S>(c.s.r(an[4][d], -1.1e3, 1.1e3));
    }
    touching = nested = disjoint = false;
    c.label("ends-are-arbitrary-reals");
  }
  if (touching) {c.label("touching");}
  if (nested) {c.label("nested");}
  if (disjoint) {c.label("disjoint");}
  c.label(scalarName<S>());
  c.nontrivial();
  c.commit();

  Interval<S, D> a(lo1, hi1), b(lo2, hi2);
  bool inA = true, inB = true, inHull = true;
  for (size_t d = 0; d < D; ++d) {
    inA = inA && v[d] >= lo1[d] && v[d] <= hi1[d];
    inB = inB && v[d] >= lo2[d] && v[d] <= hi2[d];
    inHull = inHull && v[d] >= std::min(lo1[d], lo2[d]) && v[d] <= std::max(hi1[d], hi2[d]);
  }
  c.check(a.inside(v) == inA, "Interval::inside (first interval) disagrees with the closed componentwise test");
  c.check(b.inside(v) == inB, "Interval::inside (second interval) disagrees with the closed componentwise test");
  Interval<S, D> u = a;
  u.include(b);
  for (size_t d = 0; d < D; ++d) {
    c.check(u.lower()[d] == std::min(lo1[d], lo2[d]) && u.upper()[d] == std::max(hi1[d], hi2[d]),
      vf::fmt("include(): axis %zu hull of [%g,%g] and [%g,%g] is [%g,%g]", d, static_cast<double>(lo1[d]), static_cast<double>(hi1[d]),
      static_cast<double>(lo2[d]), static_cast<double>(hi2[d]), static_cast<double>(u.lower()[d]), static_cast<double>(u.upper()[d])));
  }
  c.check(u.inside(v) == inHull, "inside() of the union disagrees with the hull");
  // the default interval is the whole space: it contains every query, and stays the whole space whatever it includes
  Interval<S, D> whole;
  c.check(whole.inside(v), "the default (whole space) interval does not contain the query");
  Interval<S, D> w2 = whole;
  w2.include(a);
  c.check(w2.lower() == whole.lower() && w2.upper() == whole.upper(), "whole space including an interval is no longer the whole space");
  Interval<S, D> w3 = a;
  w3.include(whole);
  c.check(w3.lower() == whole.lower() && w3.upper() == whole.upper(), "an interval including the whole space is not the whole space");
  Interval<S, D> u2 = b;
  u2.include(a);
  c.check(u2.lower() == u.lower() && u2.upper() == u.upper(), "include() is not symmetric");
  for (size_t d = 0; d < D; ++d) {
    c.check(u.width()[d] == u.upper()[d] - u.lower()[d], "width() differs from upper - lower");
  }
}

// 1-D specialisation of Interval has scalar members
template<typename S>
void interval1Body(vf::Ctx & c)
{
  S lo1 = static_cast<S>(c.s.dyadic("a_lo", -64, 64, 4));
  S hi1 = lo1 + static_cast<S>(c.s.dyadic("a_w", 0, 64, 4));
  S lo2 = static_cast<S>(c.s.dyadic("b_lo", -64, 64, 4));
  S hi2 = lo2 + static_cast<S>(c.s.dyadic("b_w", 0, 64, 4));
  size_t vk = c.s.pick("v_class", {1, 1, 1, 1, 2});
  S v = vk == 0 ? lo1 : vk == 1 ? hi1 : vk == 2 ? lo2 : vk == 3 ? hi2 : static_cast<S>(c.s.dyadic("v", -200, 200, 4));
  int64_t nudge = c.s.i("v_nudge", -1, 1);
  if (nudge > 0) {v = std::nextafter(v, std::numeric_limits<S>::infinity());}
  if (nudge < 0) {v = std::nextafter(v, -std::numeric_limits<S>::infinity());}
  if (c.s.flag("ends_are_arbitrary_reals", 1, 3)) {
    S x1 = static_cast<S>(c.s.r("ra_lo", -1e3, 1e3)), y1 = static_cast<S>(c.s.r("ra_hi", -1e3, 1e3));
    S x2 = static_cast<S>(c.s.r("rb_lo", -1e3, 1e3)), y2 = static_cast<S>(c.s.r("rb_hi", -1e3, 1e3));
    lo1 = std::min(x1, y1); hi1 = std::max(x1, y1); lo2 = std::min(x2, y2); hi2 = std::max(x2, y2);
    size_t rk = c.s.pick("rv_class", {1, 1, 1, 1, 2});
    v = rk == 0 ? lo1 : rk == 1 ? hi1 : rk == 2 ? lo2 : rk == 3 ? hi2 : static_cast<S>(c.s.r("rv", -1.1e3, 1.1e3));
    c.label("ends-are-arbitrary-reals");
  }
  c.label(scalarName<S>());
  c.nontrivial();
  c.commit();
  Interval<S, 1> a(lo1, hi1), b(lo2, hi2);
  c.check(a.inside(v) == (v >= lo1 && v <= hi1), "Interval1D::inside disagrees with the closed test");
  Interval<S, 1> u = a;
  u.include(b);
  c.check(u.lower() == std::min(lo1, lo2) && u.upper() == std::max(hi1, hi2), "Interval1D::include is not the hull");
  c.check(u.inside(v) == (v >= std::min(lo1, lo2) && v <= std::max(hi1, hi2)), "Interval1D hull inside()");
  Interval<S, 1> u2 = b;
  u2.include(a);
  c.check(u2.lower() == u.lower() && u2.upper() == u.upper(), "Interval1D::include is not symmetric");
  c.check(u.width() == u.upper() - u.lower() && a.width() == hi1 - lo1, "Interval1D::width() differs from upper - lower");
  c.check(a.center() == (lo1 + hi1) / 2, "Interval1D::center() is not the middle");
  Interval<S, 1> whole;
  c.check(whole.inside(v), "the default (whole line) 1-D interval does not contain the query");
  Interval<S, 1> w2 = a;
  w2.include(whole);
  c.check(w2.lower() == whole.lower() && w2.upper() == whole.upper(), "a 1-D interval including the whole line is not the whole line");
}

// ---------------------------------------------------------------------------------------------------------
// point sets: extents, centroid, preconditioning scale
struct Cloud {std::vector<std::array<double, 3>> pts; int n; bool degenerate = false;};

// (drawn after every older draw so that older tapes stay replayable) one point exactly at the origin: a "null" sensor
// return is still a point of the set
void maybeInsertOrigin(vf::Ctx & c, Cloud & cl)
{
  if (c.s.flag("contains_the_origin_point", 1, 6) && !cl.degenerate) {
    cl.pts[static_cast<size_t>(c.s.i("origin_point_slot", 0, 999)) % cl.pts.size()] = std::array<double, 3>{0.0, 0.0, 0.0};
    c.label("set-contains-the-origin-point");
  }
}

Cloud genCloud(vf::Ctx & c)
{
  Cloud cl;
  cl.n = static_cast<int>(c.s.len("n_points", 1, 1000));
  size_t octant = c.s.pick("placement", {2, 3, 2, 1, 1});  // straddling, all-negative, all-positive, mixed signs per axis, far
  double ext = c.s.rlog("extent", 1e-3, 1e3);
  int signs[3] = {0, 0, 0};
  if (octant == 3) {for (int d = 0; d < 3; ++d) {signs[d] = static_cast<int>(c.s.i("axis_sign", -1, 1));}}
  bool degenerate = c.s.flag("all_identical", 1, 12);
  uint64_t seed = c.s.seed("cloud_seed");
  vf::Rng rng(seed);
  double off[3];
  for (int d = 0; d < 3; ++d) {
    switch (octant) {
      case 0: off[d] = 0; break;
      case 1: off[d] = -(1.5 + rng.u()) * ext; break;
      case 2: off[d] = (1.5 + rng.u()) * ext; break;
      case 3: off[d] = signs[d] * (1.5 + rng.u()) * ext; break;
      default: off[d] = (rng.u() < 0.5 ? -1 : 1) * 1e4 * ext; break;
    }
  }
  std::array<double, 3> first{};
  for (int k = 0; k < cl.n; ++k) {
    std::array<double, 3> p;
    for (int d = 0; d < 3; ++d) {p[d] = off[d] + rng.uniform(-ext, ext);}
    if (k == 0) {first = p;}
    if (degenerate) {p = first;}
    cl.pts.push_back(p);
  }
  cl.degenerate = degenerate;
  static const char * names[] = {"straddling-origin", "all-negative", "all-positive", "per-axis-signs", "far-from-origin"};
  c.label(names[octant]);
  if (degenerate || cl.n == 1) {c.label("degenerate(single location)");}
  c.nontrivial(octant != 0);
  return cl;
}

template<class PointType>
void preconditionerOn(vf::Ctx & c, const Cloud & cl, const char * typeName, bool reusedObject, bool fromConstructor)
{
  using S = typename PointType::Scalar;
  constexpr int DIM = PointTraits<PointType>::DIM;
  constexpr int SIZE = PointTraits<PointType>::SIZE;
  PointSet<PointType> set;
  for (const auto & p : cl.pts) {
    PointType q;
    for (int d = 0; d < DIM; ++d) {q[d] = static_cast<S>(p[d]);}
    if (SIZE > DIM) {q[SIZE - 1] = S(1);}
    set.push_back(q);
  }
  // the preconditioner object has a past: it first processed a larger, unrelated set (positive, far away), so that
  // extrema or sums left over from an earlier compute() would show; results must be those of the current set only
  PointSetPreconditioner<PointType> pre;
  if (reusedObject) {
    PointSet<PointType> other;
    for (size_t k = 0; k < 2 * set.size() + 3; ++k) {
      PointType q;
      for (int d = 0; d < DIM; ++d) {q[d] = static_cast<S>(1e5 + 37.0 * static_cast<double>(k % 11) + d);}
      if (SIZE > DIM) {q[SIZE - 1] = S(1);}
      other.push_back(q);
    }
    pre.compute(other);
  }
  if (fromConstructor) {
    // the constructor that takes the set: same results as a default-constructed object that computes
    pre = PointSetPreconditioner<PointType>(set);
  } else if (reusedObject && set.size() % 2 == 0) {
    // the same container refilled in place: first it holds other content of the same size (shifted and mirrored),
    // the preconditioner processes it, then the real content is written over it and processed
    PointSet<PointType> real = set;
    for (auto & q : set) {
      for (int d = 0; d < DIM; ++d) {q[d] = static_cast<S>(-3 * q[d] + 17);}
    }
    pre.compute(set);
    for (size_t k = 0; k < set.size(); ++k) {set[k] = real[k];}
    pre.compute(set);
  } else {
    pre.compute(set);
  }
  S mn[4], mx[4];
  LD sum[4];
  for (int d = 0; d < SIZE; ++d) {mn[d] = set[0][d]; mx[d] = set[0][d]; sum[d] = 0;}
  S amax = 0;
  for (const auto & q : set) {
    for (int d = 0; d < SIZE; ++d) {
      mn[d] = std::min(mn[d], q[d]); mx[d] = std::max(mx[d], q[d]); sum[d] += q[d];
      amax = std::max(amax, std::fabs(q[d]));
    }
  }
  const S eps = std::numeric_limits<S>::epsilon();
  S side = 0;
  for (int d = 0; d < SIZE; ++d) {
    VF_CHECK(c, pre.getPointSetMin()[d] == mn[d], "%s: reported minimum along axis %d is %.9g, true minimum %.9g", typeName, d, static_cast<double>(pre.getPointSetMin()[d]), static_cast<double>(mn[d]));
    VF_CHECK(c, pre.getPointSetMax()[d] == mx[d], "%s: reported maximum along axis %d is %.9g, true maximum %.9g", typeName, d, static_cast<double>(pre.getPointSetMax()[d]), static_cast<double>(mx[d]));
    LD mean = sum[d] / static_cast<LD>(set.size());
    LD tol = static_cast<LD>(eps) * (static_cast<LD>(set.size()) + 4) * amax;
    VF_CHECK(c, fabsl(pre.getPointSetMean()[d] - mean) <= tol, "%s: reported mean along axis %d is %.9g, centroid %.9Lg", typeName, d, static_cast<double>(pre.getPointSetMean()[d]), mean);
    side = std::max(side, static_cast<S>(mx[d] - mn[d]));
  }
  S sc = pre.getScale();
  if (side == S(0)) {
    VF_CHECK(c, std::isinf(sc) && sc > 0, "%s: degenerate set: scale %.9g, expected 1/0 = +inf", typeName, static_cast<double>(sc));
  } else {
    S want = S(1) / side;
    VF_CHECK(c, std::fabs(sc - want) <= 4 * eps * want, "%s: scale %.9g, reciprocal of the largest side is %.9g", typeName, static_cast<double>(sc), static_cast<double>(want));
  }
}

void pointSetBody(vf::Ctx & c)
{
  Cloud cl = genCloud(c);
  int type = static_cast<int>(c.s.i("point_type", 0, 7));
  bool reused = c.s.flag("preconditioner_object_reused");
  if (reused) {c.label("preconditioner-object-reused");}
  maybeInsertOrigin(c, cl);
  const bool fromCtor = c.s.flag("preconditioner_constructed_from_the_set", 1, 3);
  if (fromCtor) {c.label("preconditioner-constructed-from-the-set");}
  c.commit();
  switch (type) {
    case 0: c.label("Vector2f"); preconditionerOn<Eigen::Vector2f>(c, cl, "Vector2f", reused, fromCtor); break;
    case 1: c.label("Vector2d"); preconditionerOn<Eigen::Vector2d>(c, cl, "Vector2d", reused, fromCtor); break;
    case 2: c.label("Vector3f"); preconditionerOn<Eigen::Vector3f>(c, cl, "Vector3f", reused, fromCtor); break;
    case 3: c.label("Vector3d"); preconditionerOn<Eigen::Vector3d>(c, cl, "Vector3d", reused, fromCtor); break;
    case 4: c.label("Homogeneous2f"); preconditionerOn<HomogeneousCoordinates2f>(c, cl, "Homogeneous2f", reused, fromCtor); break;
    case 5: c.label("Homogeneous2d"); preconditionerOn<HomogeneousCoordinates2d>(c, cl, "Homogeneous2d", reused, fromCtor); break;
    case 6: c.label("Homogeneous3f"); preconditionerOn<HomogeneousCoordinates3f>(c, cl, "Homogeneous3f", reused, fromCtor); break;
    default: c.label("Homogeneous3d"); preconditionerOn<HomogeneousCoordinates3d>(c, cl, "Homogeneous3d", reused, fromCtor); break;
  }
}

// free min / max / mean over containers (min/max instantiate for Eigen::Array elements only)
template<class Container>
void containerExtents(vf::Ctx & c, const Cloud & cl, const char * what)
{
  using A = typename Container::value_type;
  using S = typename A::Scalar;
  constexpr int N = A::RowsAtCompileTime;
  Container pts;
  for (const auto & p : cl.pts) {
    A a;
    for (int d = 0; d < N; ++d) {a[d] = static_cast<S>(p[d]);}
    pts.push_back(a);
  }
  A mn = romea::core::min(pts), mx = romea::core::max(pts), me = romea::core::mean(pts);
  const S eps = std::numeric_limits<S>::epsilon();
  for (int d = 0; d < N; ++d) {
    S tmn = pts.front()[d], tmx = pts.front()[d], amax = 0;
    LD sum = 0;
    for (const auto & a : pts) {tmn = std::min(tmn, a[d]); tmx = std::max(tmx, a[d]); sum += a[d]; amax = std::max(amax, std::fabs(a[d]));}
    VF_CHECK(c, mn[d] == tmn, "%s: min() axis %d gives %.9g, true %.9g", what, d, static_cast<double>(mn[d]), static_cast<double>(tmn));
    VF_CHECK(c, mx[d] == tmx, "%s: max() axis %d gives %.9g, true %.9g", what, d, static_cast<double>(mx[d]), static_cast<double>(tmx));
    LD tol = static_cast<LD>(eps) * (static_cast<LD>(pts.size()) + 4) * amax;
    VF_CHECK(c, fabsl(me[d] - sum / static_cast<LD>(pts.size())) <= tol, "%s: mean() axis %d gives %.9g", what, d, static_cast<double>(me[d]));
  }
}

template<class Container>
void containerMeanOnly(vf::Ctx & c, const Cloud & cl, const char * what)
{
  using V = typename Container::value_type;
  using S = typename V::Scalar;
  constexpr int N = V::RowsAtCompileTime;
  Container pts;
  for (const auto & p : cl.pts) {
    V a;
    for (int d = 0; d < N; ++d) {a[d] = static_cast<S>(p[d]);}
    pts.push_back(a);
  }
  V me = romea::core::mean(pts);
  const S eps = std::numeric_limits<S>::epsilon();
  for (int d = 0; d < N; ++d) {
    LD sum = 0;
    S amax = 0;
    for (const auto & a : pts) {sum += a[d]; amax = std::max(amax, std::fabs(a[d]));}
    LD tol = static_cast<LD>(eps) * (static_cast<LD>(pts.size()) + 4) * amax;
    VF_CHECK(c, fabsl(me[d] - sum / static_cast<LD>(pts.size())) <= tol, "%s: mean() axis %d gives %.9g", what, d, static_cast<double>(me[d]));
  }
}

void containerBody(vf::Ctx & c)
{
  Cloud cl = genCloud(c);
  int kind = static_cast<int>(c.s.i("container", 0, 5));
  maybeInsertOrigin(c, cl);
  c.commit();
  switch (kind) {
    case 0: c.label("vector<Array2d>"); containerExtents<VectorOfEigenVector<Eigen::Array2d>>(c, cl, "vector<Array2d>"); break;
    case 1: c.label("vector<Array3f>"); containerExtents<VectorOfEigenVector<Eigen::Array3f>>(c, cl, "vector<Array3f>"); break;
    case 2: c.label("deque<Array3d>"); containerExtents<DequeOfEigenVector<Eigen::Array3d>>(c, cl, "deque<Array3d>"); break;
    case 3: c.label("list<Array2f>"); containerExtents<ListOfEigenVector<Eigen::Array2f>>(c, cl, "list<Array2f>"); break;
    case 4: c.label("vector<Vector3d>-mean"); containerMeanOnly<VectorOfEigenVector<Eigen::Vector3d>>(c, cl, "vector<Vector3d>"); break;
    default: c.label("vector<Vector2f>-mean"); containerMeanOnly<VectorOfEigenVector<Eigen::Vector2f>>(c, cl, "vector<Vector2f>"); break;
  }
}

const char * kBoxRule =
  "centres k/64 in [-1024,1024], half extents 0 or k/64 in [0,512] (so centre +- half extent is exact in float and double); query "
  "coordinate per axis: centre / exactly on the face / one ulp of the data scale (ulp(2048)) either side of the face / dyadic inside / outside / far. "
  "Non-trivial: a coordinate on a face or one ulp from it, or a zero extent.";
const char * kObbRule =
  "boxes as above; rotation = proper signed permutation (exact: points on faces, edges, corners are exactly representable) or "
  "random (angle / unit quaternion rounded to the scalar type; then query points keep a margin of 64 eps (scale+5000) from every "
  "face so the verdict is unambiguous); query generated in the box frame and mapped to the world in long double. "
  "Non-trivial: rotation different from the identity.";
const char * kSetRule =
  "1..1000 points from a drawn seed, extent log-uniform in [1e-3,1e3], placement straddling the origin / all coordinates negative / "
  "all positive / per-axis sign / 1e4 extents away; 1 in 12 sets has all points identical. Non-trivial: set not straddling the origin.";

const std::vector<vf::Sub> kSubs = {
  {"aabb2f", aabbBody<float, 2>, kBoxRule}, {"aabb2d", aabbBody<double, 2>, kBoxRule},
  {"aabb3f", aabbBody<float, 3>, kBoxRule}, {"aabb3d", aabbBody<double, 3>, kBoxRule},
  {"obb2f", obbBody<float, 2>, kObbRule}, {"obb2d", obbBody<double, 2>, kObbRule},
  {"obb3f", obbBody<float, 3>, kObbRule}, {"obb3d", obbBody<double, 3>, kObbRule},
  {"interval1f", interval1Body<float>, "1-D intervals with dyadic ends, query at an end, one ulp off, or free; every case non-trivial"},
  {"interval1d", interval1Body<double>, "1-D intervals with dyadic ends, query at an end, one ulp off, or free; every case non-trivial"},
  {"interval2f", intervalBody<float, 2>, "pairs of intervals (free / touching / nested / disjoint per axis) with dyadic ends; query at an end of either interval, one ulp off, or free; every case non-trivial"},
  {"interval2d", intervalBody<double, 2>, "pairs of intervals (free / touching / nested / disjoint per axis) with dyadic ends; query at an end of either interval, one ulp off, or free; every case non-trivial"},
  {"interval3f", intervalBody<float, 3>, "pairs of intervals (free / touching / nested / disjoint per axis) with dyadic ends; query at an end of either interval, one ulp off, or free; every case non-trivial"},
  {"interval3d", intervalBody<double, 3>, "pairs of intervals (free / touching / nested / disjoint per axis) with dyadic ends; query at an end of either interval, one ulp off, or free; every case non-trivial"},
  {"pointset", pointSetBody, kSetRule},
  {"containers", containerBody, kSetRule},
};

}  // namespace

VF_HARNESS(kSubs)
