// C02 - Local tangent-plane (ENU) frame is a rigid, correctly oriented isometry; anchoring histories
#include "vf_main.hpp"

#include <Eigen/Geometry>
#include <memory>
#include "romea_core_common/geodesy/ENUConverter.hpp"

using romea::core::ENUConverter;
using romea::core::GeodeticCoordinates;
using romea::core::WGS84Coordinates;

namespace {

const double PI = 3.14159265358979323846;
const double A = 6378137.0, B = 6356752.314;  // GRS80 as the library defines it
typedef long double LD;

struct Geo {double lat, lon, h;};

void refEcef(const Geo & g, LD out[3])
{
  LD a = A, b = B, e2 = (a * a - b * b) / (a * a);
  LD sl = sinl(g.lat), cl = cosl(g.lat), so = sinl(g.lon), co = cosl(g.lon);
  LD N = a / sqrtl(1.0L - e2 * sl * sl);
  out[0] = (N + g.h) * cl * co; out[1] = (N + g.h) * cl * so; out[2] = (N * (1.0L - e2) + g.h) * sl;
}

// columns: east, north, up
void refAxes(const Geo & g, LD R[3][3])
{
  LD sl = sinl(g.lat), cl = cosl(g.lat), so = sinl(g.lon), co = cosl(g.lon);
  R[0][0] = -so; R[1][0] = co; R[2][0] = 0;
  R[0][1] = -sl * co; R[1][1] = -sl * so; R[2][1] = cl;
  R[0][2] = cl * co; R[1][2] = cl * so; R[2][2] = sl;
}

Eigen::Vector3d refToEnuFromEcef(const Geo & anchor, const LD X[3])
{
  LD t[3], R[3][3];
  refEcef(anchor, t);
  refAxes(anchor, R);
  Eigen::Vector3d p;
  for (int c = 0; c < 3; ++c) {
    LD s = 0;
    for (int r = 0; r < 3; ++r) {s += R[r][c] * (X[r] - t[r]);}
    p[c] = static_cast<double>(s);
  }
  return p;
}

Eigen::Vector3d refToEnu(const Geo & anchor, const Geo & g)
{
  LD X[3];
  refEcef(g, X);
  return refToEnuFromEcef(anchor, X);
}

void refToEcef(const Geo & anchor, const Eigen::Vector3d & p, LD X[3])
{
  LD t[3], R[3][3];
  refEcef(anchor, t);
  refAxes(anchor, R);
  for (int r = 0; r < 3; ++r) {
    X[r] = t[r];
    for (int c = 0; c < 3; ++c) {X[r] += R[r][c] * static_cast<LD>(p[c]);}
  }
}

double wrapLon(double l)
{
  while (l > PI) {l -= 2 * PI;}
  while (l < -PI) {l += 2 * PI;}
  return l;
}

Geo genAnchor(vf::Ctx & c)
{
  Geo a;
  a.lat = c.s.r("a_lat", -85.0 * PI / 180, 85.0 * PI / 180);
  size_t lc = c.s.pick("a_lon_class", {3, 1});
  if (lc == 0) {a.lon = c.s.r("a_lon", -PI, PI);} else {
    bool east = c.s.flag("a_lon_east");
    a.lon = c.s.near("a_lon", east ? PI : -PI, 2.0, 12.0, -PI, PI);
  }
  a.h = c.s.r("a_h", -500.0, 9000.0);
  return a;
}

// geodetic point near an anchor-like centre (<= ~100 km horizontally, 10 km vertically)
Geo genGeoNear(vf::Ctx & c, const Geo & ctr)
{
  Geo g;
  double dn, de, dh;
  if (c.s.pick("d_scale", {3, 2}) == 1) {
    double rad = c.s.rlog("d_radius", 1e-3, 1e3), bearing = c.s.uni("d_bearing", -PI, PI);
    dn = rad * std::cos(bearing); de = rad * std::sin(bearing);
    dh = c.s.pick("d_up_class", {1, 1}) == 0 ? 0.0 : c.s.r("d_up_near", -50.0, 50.0);
    c.label("geodetic-point-within-1km-of-the-centre");
  } else {
    dn = c.s.r("d_north", -7.0e4, 7.0e4); de = c.s.r("d_east", -7.0e4, 7.0e4); dh = c.s.r("d_up", -9000.0, 9000.0);
  }
  g.lat = ctr.lat + dn / 6.4e6;
  if (g.lat > 89.0 * PI / 180) {g.lat = 89.0 * PI / 180;}
  if (g.lat < -89.0 * PI / 180) {g.lat = -89.0 * PI / 180;}
  g.lon = wrapLon(ctr.lon + de / (6.4e6 * std::cos(ctr.lat)));
  g.h = ctr.h + dh;
  return g;
}

Eigen::Vector3d genLocal(vf::Ctx & c)
{
  // anywhere in the stated range / in the working area around the anchor: horizontal distance log-uniform from 1 mm
  // to 1 km, any bearing (where a robot actually is)
  if (c.s.pick("p_scale", {3, 2}) == 1) {
    double rad = c.s.rlog("p_radius", 1e-3, 1e3), bearing = c.s.uni("p_bearing", -PI, PI);
    double up = c.s.pick("p_up_class", {1, 1}) == 0 ? 0.0 : c.s.r("p_up_near", -50.0, 50.0);
    c.label("local-point-within-1km-of-the-anchor");
    return Eigen::Vector3d(rad * std::sin(bearing), rad * std::cos(bearing), up);
  }
  return Eigen::Vector3d(c.s.r("px", -7.0e4, 7.0e4), c.s.r("py", -7.0e4, 7.0e4), c.s.r("pz", -1.0e4, 1.0e4));
}

enum OpKind { CONSTRUCT, CONSTRUCT_ANCHOR, SET_ANCHOR, RESET, ENU_GEO, ENU_WGS, ENU_ECEF, TO_ECEF, TO_WGS84, FRAME };
struct Op {int kind; Geo g; Eigen::Vector3d p; bool aliased = false;};   // aliased: the argument is the converter's own anchor object

GeodeticCoordinates mk(const Geo & g) {return romea::core::makeGeodeticCoordinates(g.lat, g.lon, g.h);}

void checkFrameAgainstReference(vf::Ctx & c, const ENUConverter & conv, const Geo & a, const char * when)
{
  const Eigen::Affine3d & T = conv.getEnuToEcefTransform();
  Eigen::Matrix3d L = T.linear();
  double orth = (L.transpose() * L - Eigen::Matrix3d::Identity()).norm();
  c.maxStat("orthonormality-residual", orth);
  VF_CHECK(c, orth <= 1e-12, "%s: frame linear part not orthonormal (%.3g)", when, orth);
  double det = L.determinant();
  VF_CHECK(c, std::fabs(det - 1.0) <= 1e-12, "%s: frame determinant %.17g, expected +1 (proper rotation)", when, det);
  LD R[3][3], t[3];
  refAxes(a, R); refEcef(a, t);
  double dmax = 0, tmax = 0;
  for (int r = 0; r < 3; ++r) {
    for (int k = 0; k < 3; ++k) {dmax = std::max(dmax, std::fabs(static_cast<double>(L(r, k) - R[r][k])));}
    tmax = std::max(tmax, std::fabs(static_cast<double>(T.translation()[r] - t[r])));
  }
  VF_CHECK(c, dmax <= 1e-12, "%s: axes differ from (east,north,up) at the anchor by %.3g", when, dmax);
  VF_CHECK(c, tmax <= 1e-6, "%s: frame origin differs from the anchor's ECEF position by %.3g m", when, tmax);
  // a fresh converter on the same anchor must give the identical frame (re-anchoring fully replaces)
  ENUConverter fresh(mk(a));
  c.check(fresh.getEnuToEcefTransform().matrix() == T.matrix(),
    vf::fmt("%s: frame differs from a freshly constructed converter on the same anchor", when));
}

void history(vf::Ctx & c)
{
  // ---------------- generation (with the anchored/un-anchored model) ----------------
  int n = static_cast<int>(c.s.len("n_ops", 2, 30));
  std::vector<Op> ops;
  bool anchored = false, constructed = false;
  Geo ctr{0, 0, 0};
  int anchorChanges = 0, conversionsAfterChange = 0;
  bool sawReset = false, sawAuto = false, sawReanchor = false, antiAnchor = false, sameLatLon = false, sawAliased = false;
  bool everAnchored = false, samePlaceAfterReset = false;
  Geo lastAnchor{0, 0, 0};
  for (int k = 0; k < n; ++k) {
    Op op;
    op.p.setZero(); op.g = Geo{0, 0, 0};
    if (!constructed) {
      op.kind = c.s.flag("first_with_anchor") ? CONSTRUCT_ANCHOR : CONSTRUCT;
    } else {
      op.kind = static_cast<int>(c.s.pick("op", {1, 1, 3, 2, 4, 2, 3, 3, 3, 2}));
    }
    if ((op.kind == ENU_ECEF || op.kind == TO_ECEF || op.kind == TO_WGS84 || op.kind == FRAME) && !anchored) {
      op.kind = ENU_GEO;  // precondition assert(isAnchored_): respected by construction
    }
    switch (op.kind) {
      case CONSTRUCT_ANCHOR:
      case SET_ANCHOR:
        if (op.kind == SET_ANCHOR && anchored && c.s.flag("argument_is_own_anchor_reference", 1, 6)) {
          // setAnchor(conv.getAnchor()) on an anchored converter: the caller hands back the reference it got from it (what
          // getAnchor() designates while un-anchored is unspecified, so only the anchored state is used)
          op.g = lastAnchor;
          op.aliased = true;
          sawAliased = true;
        } else if (op.kind == SET_ANCHOR && !anchored && everAnchored && c.s.flag("re_anchor_where_the_anchor_was_before_reset", 1, 3)) {
          // reset(), then anchoring again at exactly the previous place (a vehicle restarting where it stands)
          op.g = lastAnchor;
          samePlaceAfterReset = true;
        } else if (op.kind == SET_ANCHOR && anchored && c.s.flag("same_place_other_height", 1, 4)) {
          // re-anchor at exactly the same latitude / longitude, only the height changes
          op.g = ctr;
          op.g.h = c.s.r("a_h", -500.0, 9000.0);
          sameLatLon = true;
        } else {
          op.g = genAnchor(c);
        }
        if (anchored) {sawReanchor = true;}
        constructed = true; anchored = true; ctr = op.g; anchorChanges++;
        everAnchored = true; lastAnchor = op.g;
        break;
      case CONSTRUCT: constructed = true; anchored = false; everAnchored = false; break;
      case RESET: anchored = false; sawReset = true; break;
      case ENU_GEO:
        if (!anchored) {
          if (everAnchored && c.s.flag("re_anchor_where_the_anchor_was_before_reset", 1, 3)) {op.g = lastAnchor; samePlaceAfterReset = true;} else {op.g = genAnchor(c);}
          ctr = op.g; anchored = true; sawAuto = true; anchorChanges++; everAnchored = true; lastAnchor = op.g;
        } else {
          op.g = genGeoNear(c, ctr); if (anchorChanges > 1 || sawReset) {conversionsAfterChange++;}
        }
        break;
      case ENU_WGS:
        if (!anchored) {op.g = genAnchor(c); ctr = op.g; anchored = true; sawAuto = true; anchorChanges++;} else {
          op.g = genGeoNear(c, ctr); if (anchorChanges > 1 || sawReset) {conversionsAfterChange++;}
        }
        break;
      case ENU_ECEF: case TO_ECEF: case TO_WGS84:
        op.p = genLocal(c); if (anchorChanges > 1 || sawReset) {conversionsAfterChange++;}
        break;
      case FRAME: op.p = genLocal(c); break;
    }
    if ((op.kind == CONSTRUCT_ANCHOR || op.kind == SET_ANCHOR || op.kind == ENU_GEO || op.kind == ENU_WGS) &&
      PI - std::fabs(ctr.lon) < 1e-2)
    {
      antiAnchor = true;
    }
    ops.push_back(op);
  }
  if (sawAuto) {c.label("auto-anchor");}
  if (sawReanchor) {c.label("re-anchor");}
  if (sawReset) {c.label("reset");}
  if (antiAnchor) {c.label("antimeridian-anchor");}
  if (sameLatLon) {c.label("re-anchor-same-lat-lon-other-height");}
  if (sawAliased) {c.label("setAnchor(own getAnchor() reference)");}
  if (samePlaceAfterReset) {c.label("re-anchored-at-the-previous-place-after-reset");}
  c.nontrivial(conversionsAfterChange > 0);
  c.commit();

  // ---------------- execution against the model ----------------
  std::unique_ptr<ENUConverter> conv;
  bool mAnch = false;
  Geo mA{0, 0, 0};
  int idx = 0;
  for (const Op & op : ops) {
    std::string w = vf::fmt("op#%d", idx++);
    switch (op.kind) {
      case CONSTRUCT:
        conv.reset(new ENUConverter());
        mAnch = false;
        break;
      case CONSTRUCT_ANCHOR:
        conv.reset(new ENUConverter(mk(op.g)));
        mAnch = true; mA = op.g;
        checkFrameAgainstReference(c, *conv, mA, (w + " construct(anchor)").c_str());
        break;
      case SET_ANCHOR:
        if (op.aliased) {
          // the model's anchor after this call is the value the reference designated at the time of the call
          const GeodeticCoordinates & own = conv->getAnchor();
          Geo designated{own.latitude, own.longitude, own.altitude};
          conv->setAnchor(own);
          mAnch = true; mA = designated;
          checkFrameAgainstReference(c, *conv, mA, (w + " setAnchor(getAnchor())").c_str());
          break;
        }
        conv->setAnchor(mk(op.g));
        mAnch = true; mA = op.g;
        checkFrameAgainstReference(c, *conv, mA, (w + " setAnchor").c_str());
        break;
      case RESET:
        conv->reset();
        mAnch = false;
        break;
      case ENU_GEO: {
          Eigen::Vector3d r = conv->toENU(mk(op.g));
          c.check(r.allFinite(), w + " toENU(geodetic) non-finite");
          if (!mAnch) {
            VF_CHECK(c, r.norm() <= 1e-6, "%s: first geodetic point of an un-anchored converter maps to (%.3g,%.3g,%.3g), not the origin", w.c_str(), r[0], r[1], r[2]);
            mAnch = true; mA = op.g;
            c.check(conv->isAnchored(), w + ": converter did not anchor itself on the first geodetic point");
            checkFrameAgainstReference(c, *conv, mA, (w + " auto-anchor").c_str());
          } else {
            Eigen::Vector3d e = refToEnu(mA, op.g);
            double d = (r - e).norm();
            c.maxStat("toENU(geodetic)-vs-reference[m]", d);
            VF_CHECK(c, d <= 1e-6, "%s: toENU(geodetic) differs from the reference frame by %.3g m (got %.9g,%.9g,%.9g want %.9g,%.9g,%.9g)",
              w.c_str(), d, r[0], r[1], r[2], e[0], e[1], e[2]);
          }
          break;
        }
      case ENU_WGS: {
          WGS84Coordinates wc = romea::core::makeWGS84Coordinates(op.g.lat, op.g.lon);
          Eigen::Vector3d r = conv->toENU(wc);
          c.check(r.allFinite(), w + " toENU(wgs84) non-finite");
          if (!mAnch) {
            // the altitude an un-anchored converter assumes is unspecified: take it from the converter
            VF_CHECK(c, r.norm() <= 1e-6, "%s: first WGS84 point of an un-anchored converter maps to (%.3g,%.3g,%.3g), not the origin", w.c_str(), r[0], r[1], r[2]);
            c.check(conv->isAnchored(), w + ": converter did not anchor itself on the first WGS84 point");
            GeodeticCoordinates ga = conv->getAnchor();
            c.check(ga.latitude == op.g.lat && ga.longitude == op.g.lon, w + ": auto-anchor latitude/longitude differ from the converted point");
            c.check(std::isfinite(ga.altitude), w + ": auto-anchor altitude not finite");
            mAnch = true; mA = Geo{op.g.lat, op.g.lon, ga.altitude};
            checkFrameAgainstReference(c, *conv, mA, (w + " auto-anchor(wgs84)").c_str());
          } else {
            Eigen::Vector3d e = refToEnu(mA, Geo{op.g.lat, op.g.lon, mA.h});
            double d = (r - e).norm();
            VF_CHECK(c, d <= 1e-6, "%s: toENU(wgs84) differs from the reference (anchor altitude) by %.3g m", w.c_str(), d);
          }
          break;
        }
      case ENU_ECEF: {
          LD X[3];
          refToEcef(mA, op.p, X);
          Eigen::Vector3d Xd(static_cast<double>(X[0]), static_cast<double>(X[1]), static_cast<double>(X[2]));
          Eigen::Vector3d r = conv->toENU(Xd);
          double d = (r - op.p).norm();
          c.maxStat("toENU(ecef)-vs-reference[m]", d);
          VF_CHECK(c, d <= 1e-6, "%s: toENU(ecef) differs from the reference by %.3g m", w.c_str(), d);
          // mutual inverse to 1 mm
          double rt = (conv->toECEF(r) - Xd).norm();
          VF_CHECK(c, rt <= 1e-3, "%s: toECEF(toENU(X)) differs from X by %.3g m", w.c_str(), rt);
          break;
        }
      case TO_ECEF: {
          Eigen::Vector3d r = conv->toECEF(op.p);
          LD X[3];
          refToEcef(mA, op.p, X);
          double d = std::sqrt(static_cast<double>((r[0] - X[0]) * (r[0] - X[0]) + (r[1] - X[1]) * (r[1] - X[1]) + (r[2] - X[2]) * (r[2] - X[2])));
          c.maxStat("toECEF-vs-reference[m]", d);
          VF_CHECK(c, d <= 1e-6, "%s: toECEF(enu) differs from the reference by %.3g m", w.c_str(), d);
          Eigen::Vector3d r2 = conv->toECEF(op.p[0], op.p[1], op.p[2]);
          c.check(r2 == r, w + ": toECEF(x,y,z) overload differs from toECEF(vector)");
          double rt = (conv->toENU(r) - op.p).norm();
          VF_CHECK(c, rt <= 1e-3, "%s: toENU(toECEF(p)) differs from p by %.3g m", w.c_str(), rt);
          break;
        }
      case TO_WGS84: {
          GeodeticCoordinates g = conv->toWGS84(op.p);
          c.check(std::isfinite(g.latitude) && std::isfinite(g.longitude) && std::isfinite(g.altitude), w + ": toWGS84(enu) non-finite");
          c.check(g.longitude >= -PI && g.longitude <= PI && std::fabs(g.latitude) <= PI / 2, w + ": toWGS84(enu) out of range");
          // independent check: the returned geodetic point, mapped by the reference, is p (1 mm)
          Eigen::Vector3d e = refToEnu(mA, Geo{g.latitude, g.longitude, g.altitude});
          double d = (e - op.p).norm();
          c.maxStat("toWGS84(enu)-reference-roundtrip[m]", d);
          VF_CHECK(c, d <= 1e-3, "%s: toWGS84(enu) is %.3g m away from the point it should describe (lon %.17g)", w.c_str(), d, g.longitude);
          // mutual inverse through the library itself
          ENUConverter tmp(mk(mA));
          double rt = (tmp.toENU(g) - op.p).norm();
          VF_CHECK(c, rt <= 1e-3, "%s: toENU(toWGS84(p)) differs from p by %.3g m", w.c_str(), rt);
          GeodeticCoordinates g2 = conv->toWGS84(op.p[0], op.p[1], op.p[2]);
          c.check(g2.latitude == g.latitude && g2.longitude == g.longitude && g2.altitude == g.altitude, w + ": toWGS84(x,y,z) overload differs");
          break;
        }
      case FRAME: {
          checkFrameAgainstReference(c, *conv, mA, (w + " frame").c_str());
          // anchor -> origin ; (lat,lon,h0+h) -> (0,0,h)
          Eigen::Vector3d o = conv->toENU(mk(mA));
          VF_CHECK(c, o.norm() <= 1e-6, "%s: anchor maps to (%.3g,%.3g,%.3g), not the origin", w.c_str(), o[0], o[1], o[2]);
          double h = op.p[2];
          Eigen::Vector3d up = conv->toENU(mk(Geo{mA.lat, mA.lon, mA.h + h}));
          VF_CHECK(c, (up - Eigen::Vector3d(0, 0, h)).norm() <= 1e-6, "%s: point %.6g m above the anchor maps to (%.6g,%.6g,%.6g)", w.c_str(), h, up[0], up[1], up[2]);
          // orientation: a small step north / east
          const double dl = 1e-6;
          Eigen::Vector3d nn = conv->toENU(mk(Geo{mA.lat + dl, mA.lon, mA.h}));
          c.check(nn[1] > 0 && std::fabs(nn[0]) <= 1e-5 * nn.norm() && std::fabs(nn[2]) <= 1e-5 * nn.norm(),
            vf::fmt("%s: a step north maps to (%.6g,%.6g,%.6g): second axis is not north", w.c_str(), nn[0], nn[1], nn[2]));
          Eigen::Vector3d ee = conv->toENU(mk(Geo{mA.lat, wrapLon(mA.lon + dl), mA.h}));
          c.check(ee[0] > 0 && std::fabs(ee[1]) <= 1e-5 * ee.norm() && std::fabs(ee[2]) <= 1e-5 * ee.norm(),
            vf::fmt("%s: a step east maps to (%.6g,%.6g,%.6g): first axis is not east", w.c_str(), ee[0], ee[1], ee[2]));
          // isometry on a pair of ECEF points
          LD X1[3], X2[3];
          refToEcef(mA, op.p, X1);
          refToEcef(mA, Eigen::Vector3d(-op.p[1], op.p[0] * 0.5, -op.p[2]), X2);
          Eigen::Vector3d a1(static_cast<double>(X1[0]), static_cast<double>(X1[1]), static_cast<double>(X1[2]));
          Eigen::Vector3d a2(static_cast<double>(X2[0]), static_cast<double>(X2[1]), static_cast<double>(X2[2]));
          double d0 = (a1 - a2).norm(), d1 = (conv->toENU(a1) - conv->toENU(a2)).norm();
          VF_CHECK(c, std::fabs(d0 - d1) <= 1e-6, "%s: distance %.9g m becomes %.9g m in the local frame", w.c_str(), d0, d1);
          break;
        }
    }
    // after every op: anchored flag and anchor agree with the model
    VF_CHECK(c, conv->isAnchored() == mAnch, "%s: isAnchored()=%d, model says %d", w.c_str(), conv->isAnchored(), mAnch);
    if (mAnch) {
      const GeodeticCoordinates & ga = conv->getAnchor();
      c.check(ga.latitude == mA.lat && ga.longitude == mA.lon && ga.altitude == mA.h, w + ": getAnchor() differs from the anchor last set");
    }
  }
}

const std::vector<vf::Sub> kSubs = {
  {"history", history,
    "histories of 2..30 ops on one converter: construct / construct(anchor) / setAnchor / reset / toENU(geodetic|wgs84|ecef) / "
    "toECEF / toWGS84 / frame probe (origin, up, north, east, isometry). Anchors |lat|<=85 deg, any longitude incl. packed around "
    "+-pi, height [-500,9000] m; local points within 70 km per horizontal axis (<100 km) and 10 km vertically. Ops requiring an "
    "anchored converter are only generated when the model is anchored. Non-trivial: at least one conversion after an anchor change "
    "(second anchor, or reset followed by re-anchoring)."},
};

}  // namespace

VF_HARNESS(kSubs)
