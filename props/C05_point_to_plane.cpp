// C05 - Point-to-plane least-squares registration solves its linearised problem
//
// One sub per (scalar, dimension); every case runs the Cartesian AND the homogeneous point type of that scalar and
// dimension through the four find() overloads (index-based / aligned  x  raw / isotropically preconditioned): 8 solves.
//
// Oracles (reference arithmetic: x87 long double written here, no Eigen):
//  (i)   structure: diagonal exactly 1, last row exactly (0..0 1), linear part exactly antisymmetric off the diagonal;
//        the parameters x = (translation column, skew part) satisfy the normal equations of the linearised
//        point-to-plane problem, rows  [n_i , s_i x n_i] x = (q_i - s_i).n_i  rebuilt from the points in long double
//        (for a preconditioned solve: from the points scaled by k in the scalar type, unknowns (k t, w));
//  (ii)  noiseless pure translation is recovered (to rounding);
//  (iii) noiseless rotation of angle th: |x - x_true| <= sqrt(n) max|s| (th^2/2 + th^3/6) / sigma_min(J) + rounding;
//  (iv)  metamorphic: index-based vs aligned, Cartesian vs homogeneous, raw vs preconditioned agree.
//
// Domain: 6..500 correspondences, unit normals, condition number of the normal matrix OF THE PROBLEM ACTUALLY SOLVED
// (raw or preconditioned) < 1e6 - computed per solve in long double; a solve outside is not run (class counted);
// float additionally needs p*eps*cond <= 0.25 for the first-order error analysis behind the tolerance to hold.
// Preconditioning is the scale-only form the in-tree caller uses (RansacRigidTransformationModel::loadPointSets):
// PreconditionedPointSet(points, k) for both sets + setPreconditioner + find(preconditioned...).
//
// Tolerance (derivation).  The estimator computes rows in S (|dJ_rot| <= 2 eps |s_i|, |dY_i| <= (D+2) eps |q_i-s_i|),
// the solver forms fl(J^T J), fl(J^T Y) (m eps relative), an explicit inverse X by Jacobi SVD (||An X - I|| <= c p eps
// cond(An)) and x = A X b with A diagonal (componentwise relative eps, no cond(A) amplification).  Hence
//   || J^T(J x - Y) || <= K eps [ p cond(JtJ) |J^T Y| + n |J|_F^2 |x| + n |J|_F |Y| + (p+3) |J|_F^2 |x|
//                                + 2 sqrt(n D) smax (2 |J|_F |x| + |Y|) + (D+2) sqrt(n) dmax |J|_F ]      (K = 8)
// and the forward tolerance is that bound divided by lambda_min(J^T J).
#include "vf_main.hpp"

#include <Eigen/Core>
#include <algorithm>
#include <array>
#include "romea_core_common/transform/estimation/FindRigidTransformationByLeastSquares.hpp"

namespace {

typedef long double LD;
const double K_TOL = 8.0;
const double COND_MAX = 1e6;

using romea::core::Correspondence;
using romea::core::FindRigidTransformationByLeastSquares;
using romea::core::NormalSet;
using romea::core::PointSet;
using romea::core::PreconditionedPointSet;

// ------------------------------------------------------------------------------------------------
// long-double helpers
// ------------------------------------------------------------------------------------------------
std::vector<LD> symEig(std::vector<LD> a, int n)
{
  for (int sweep = 0; sweep < 80; ++sweep) {
    LD off = 0, dg = 0;
    for (int i = 0; i < n; ++i) {
      dg += a[i * n + i] * a[i * n + i];
      for (int j = i + 1; j < n; ++j) {off += a[i * n + j] * a[i * n + j];}
    }
    if (off <= 1e-42L * dg || off == 0) {break;}
    for (int p = 0; p < n - 1; ++p) {
      for (int q = p + 1; q < n; ++q) {
        LD apq = a[p * n + q];
        if (apq == 0) {continue;}
        LD theta = (a[q * n + q] - a[p * n + p]) / (2 * apq);
        LD t = (theta >= 0 ? 1.0L : -1.0L) / (fabsl(theta) + sqrtl(theta * theta + 1));
        LD cs = 1 / sqrtl(t * t + 1), sn = t * cs;
        for (int k = 0; k < n; ++k) {
          LD akp = a[k * n + p], akq = a[k * n + q];
          a[k * n + p] = cs * akp - sn * akq;
          a[k * n + q] = sn * akp + cs * akq;
        }
        for (int k = 0; k < n; ++k) {
          LD apk = a[p * n + k], aqk = a[q * n + k];
          a[p * n + k] = cs * apk - sn * aqk;
          a[q * n + k] = sn * apk + cs * aqk;
        }
      }
    }
  }
  std::vector<LD> ev(n);
  for (int i = 0; i < n; ++i) {ev[i] = a[i * n + i];}
  std::sort(ev.begin(), ev.end());
  return ev;
}

LD norm2(const std::vector<LD> & v)
{
  LD s = 0;
  for (LD e : v) {s += e * e;}
  return sqrtl(s);
}

template<typename S, int D> struct Types;
template<typename S> struct Types<S, 2>
{
  typedef Eigen::Matrix<S, 2, 1> Cart;
  typedef romea::core::HomogeneousCoordinates2<S> Homo;
};
template<typename S> struct Types<S, 3>
{
  typedef Eigen::Matrix<S, 3, 1> Cart;
  typedef romea::core::HomogeneousCoordinates3<S> Homo;
};

template<typename S, int D>
struct CaseData
{
  typedef std::array<S, D> Pt;
  int n = 0;
  std::vector<Pt> src, tgt, nrm;   // full arrays: src has Ns entries, tgt and nrm have Nt entries
  std::vector<int> si, ti;         // correspondence k pairs src[si[k]] with tgt[ti[k]] (normal nrm[ti[k]])
  S k = 1;                         // preconditioning scale
  S normalW = 0;                   // last coordinate of homogeneous normals (0 as the ICP caller pre-fills, or 1 = default-constructed)
  bool noisy = false;
  double theta = 0;                // rotation angle (>= 0)
  double L = 1;                    // cloud size
  bool decoratedCorrespondences = false;   // correspondence records with a non-zero distance and a non-unit weight
  std::array<LD, D + (D == 2 ? 1 : 3)> xTrue;   // (t, w)
};

// reference of one problem (raw or preconditioned), rows in correspondence order
struct Ref
{
  int n = 0, p = 0;
  std::vector<LD> J, Y, JtJ, JtY;
  LD lmin = 0, lmax = 0, normJF = 0, normY = 0, normJtY = 0, smax = 0, dmax = 0, pmax = 0;
  LD scale = 1;   // k of the preconditioned problem (1 for raw)
  bool inDomain = false, checked = false;
};

template<typename S, int D>
Ref buildRef(const CaseData<S, D> & cd, bool pre)
{
  const int p = (D == 2) ? 3 : 6;
  Ref R;
  R.n = cd.n; R.p = p;
  R.scale = pre ? static_cast<LD>(cd.k) : 1.0L;
  R.J.assign(static_cast<size_t>(cd.n) * p, 0);
  R.Y.assign(cd.n, 0);
  for (int r = 0; r < cd.n; ++r) {
    LD s[3] = {0, 0, 0}, q[3] = {0, 0, 0}, nn[3] = {0, 0, 0};
    for (int d = 0; d < D; ++d) {
      S sv = cd.src[cd.si[r]][d], qv = cd.tgt[cd.ti[r]][d];
      if (pre) {sv = static_cast<S>(sv * cd.k); qv = static_cast<S>(qv * cd.k);}   // one rounding in S, as the library's preconditioner
      s[d] = sv; q[d] = qv; nn[d] = cd.nrm[cd.ti[r]][d];
    }
    LD * row = &R.J[static_cast<size_t>(r) * p];
    LD y = 0, ns = 0, nd = 0, nq = 0;
    for (int d = 0; d < D; ++d) {
      row[d] = nn[d];
      y += (q[d] - s[d]) * nn[d];
      ns += s[d] * s[d]; nq += q[d] * q[d]; nd += (q[d] - s[d]) * (q[d] - s[d]);
    }
    if (D == 2) {
      row[2] = s[0] * nn[1] - s[1] * nn[0];
    } else {
      row[3] = s[1] * nn[2] - s[2] * nn[1];
      row[4] = s[2] * nn[0] - s[0] * nn[2];
      row[5] = s[0] * nn[1] - s[1] * nn[0];
    }
    R.Y[r] = y;
    R.smax = std::max(R.smax, sqrtl(ns));
    R.pmax = std::max(R.pmax, std::max(sqrtl(ns), sqrtl(nq)));
    R.dmax = std::max(R.dmax, sqrtl(nd));
  }
  R.JtJ.assign(p * p, 0);
  R.JtY.assign(p, 0);
  LD fj = 0, fy = 0;
  for (int r = 0; r < cd.n; ++r) {
    const LD * row = &R.J[static_cast<size_t>(r) * p];
    for (int i = 0; i < p; ++i) {
      for (int j = i; j < p; ++j) {R.JtJ[i * p + j] += row[i] * row[j];}
      R.JtY[i] += row[i] * R.Y[r];
      fj += row[i] * row[i];
    }
    fy += R.Y[r] * R.Y[r];
  }
  for (int i = 0; i < p; ++i) {for (int j = 0; j < i; ++j) {R.JtJ[i * p + j] = R.JtJ[j * p + i];}}
  R.normJF = sqrtl(fj); R.normY = sqrtl(fy); R.normJtY = norm2(R.JtY);
  std::vector<LD> ev = symEig(R.JtJ, p);
  R.lmin = ev.front(); R.lmax = ev.back();
  R.inDomain = R.lmin > 0 && R.lmax / R.lmin < COND_MAX;
  R.checked = R.inDomain && (p * vf::epsOf<S>() * static_cast<double>(R.lmax / R.lmin) <= 0.25);
  return R;
}

// K eps [...] bracket of the normal-equation residual for parameters x (in the problem's own unknowns)
template<typename S, int D>
LD residualBound(const Ref & R, LD nx)
{
  const LD eps = vf::epsOf<S>();
  const int p = R.p, n = R.n;
  return eps * (p * (R.lmax / R.lmin) * R.normJtY + n * R.normJF * R.normJF * nx + n * R.normJF * R.normY +
         (p + 3) * R.normJF * R.normJF * nx + 2 * sqrtl(static_cast<LD>(n) * D) * R.smax * (2 * R.normJF * nx + R.normY) +
         (D + 2) * sqrtl(static_cast<LD>(n)) * R.dmax * R.normJF);
}

template<typename P, typename S, int D>
P makePoint(const std::array<S, D> & a, S w)
{
  P v = P::Zero();
  for (int d = 0; d < D; ++d) {v(d) = a[d];}
  if (static_cast<int>(P::RowsAtCompileTime) > D) {v(D) = w;}
  return v;
}

template<typename P, typename S, int D>
Eigen::Matrix<S, D + 1, D + 1> solve(const CaseData<S, D> & cd, bool pre, bool aligned, bool warm = false, bool copied = false)
{
  PointSet<P> src, tgt;
  NormalSet<P> nrm;
  std::vector<Correspondence> corr;
  if (aligned) {
    for (int r = 0; r < cd.n; ++r) {
      src.push_back(makePoint<P, S, D>(cd.src[cd.si[r]], S(1)));
      tgt.push_back(makePoint<P, S, D>(cd.tgt[cd.ti[r]], S(1)));
      nrm.push_back(makePoint<P, S, D>(cd.nrm[cd.ti[r]], cd.normalW));
    }
  } else {
    for (const auto & a : cd.src) {src.push_back(makePoint<P, S, D>(a, S(1)));}
    for (const auto & a : cd.tgt) {tgt.push_back(makePoint<P, S, D>(a, S(1)));}
    for (const auto & a : cd.nrm) {nrm.push_back(makePoint<P, S, D>(a, cd.normalW));}
    for (int r = 0; r < cd.n; ++r) {
      if (cd.decoratedCorrespondences) {
        // the records carry what a matching stage leaves in them (a squared distance, a weight); the statement minimises
        // the plain sum of squared point-to-plane distances, so these fields have no say
        corr.emplace_back(static_cast<size_t>(cd.si[r]), static_cast<size_t>(cd.ti[r]), 0.01 * (1 + r % 7), 0.25 + 0.5 * (r % 5));
      } else {
        corr.emplace_back(static_cast<size_t>(cd.si[r]), static_cast<size_t>(cd.ti[r]));
      }
    }
  }
  FindRigidTransformationByLeastSquares<P> est;
  if (warm) {
    // the estimator object has a past: a LARGER, unrelated problem (coordinates 100x larger) solved first through the
    // aligned overload, so that any state kept beyond the current problem's rows is garbage for the current problem
    vf::Rng wr(0x5eedULL + static_cast<uint64_t>(cd.n) * 131 + static_cast<uint64_t>(cd.src.size()));
    const size_t nw = 3 * static_cast<size_t>(cd.n) + 7;
    PointSet<P> ws, wt;
    NormalSet<P> wn;
    for (size_t k = 0; k < nw; ++k) {
      std::array<S, D> a, b, nv;
      double nn = 0;
      for (int d = 0; d < D; ++d) {
        a[d] = static_cast<S>(100.0 * cd.L * wr.uniform(-1, 1)); b[d] = static_cast<S>(100.0 * cd.L * wr.uniform(-1, 1));
        double g = wr.gauss(); nv[d] = static_cast<S>(g); nn += g * g;
      }
      for (int d = 0; d < D; ++d) {nv[d] = static_cast<S>(nv[d] / std::sqrt(nn > 0 ? nn : 1.0));}
      ws.push_back(makePoint<P, S, D>(a, S(1))); wt.push_back(makePoint<P, S, D>(b, S(1))); wn.push_back(makePoint<P, S, D>(nv, cd.normalW));
    }
    if (pre) {
      // preconditioned use has a past too: the larger problem was solved with another isotropic scale (7), so that a
      // compensation left over from it - e.g. when the next scale happens to be exactly 1 - shows in the answer
      PreconditionedPointSet<P> w1(ws, S(7)), w2(wt, S(7));
      est.setPreconditioner(w1, w2);
      (void)est.find(w1, w2, wn);
    } else {
      (void)est.find(ws, wt, wn);
    }
  }
  if (!pre) {
    if (copied) {
      FindRigidTransformationByLeastSquares<P> est2(est);   // value semantics: a copy of the estimator is the estimator
      return aligned ? est2.find(src, tgt, nrm) : est2.find(src, tgt, nrm, corr);
    }
    return aligned ? est.find(src, tgt, nrm) : est.find(src, tgt, nrm, corr);
  }
  PreconditionedPointSet<P> ps(src, cd.k), pt(tgt, cd.k);
  est.setPreconditioner(ps, pt);
  if (copied) {
    FindRigidTransformationByLeastSquares<P> est2(est);     // configured, then copied (e.g. stored in a vector)
    FindRigidTransformationByLeastSquares<P> est3;
    est3 = est2;                                            // ... and assigned
    return aligned ? est3.find(ps, pt, nrm) : est3.find(ps, pt, nrm, corr);
  }
  return aligned ? est.find(ps, pt, nrm) : est.find(ps, pt, nrm, corr);
}

// reads the parameters back from the matrix after checking its structure; returns (t, w) in long double
template<typename S, int D>
std::vector<LD> readBack(vf::Ctx & c, const Eigen::Matrix<S, D + 1, D + 1> & M, const std::string & who)
{
  c.check(M.allFinite(), who + ": non-finite transformation matrix");
  for (int i = 0; i <= D; ++i) {
    c.check(M(i, i) == S(1), vf::fmt("%s: diagonal entry (%d,%d) is %.9g, not 1", who.c_str(), i, i, static_cast<double>(M(i, i))));
    if (i < D) {c.check(M(D, i) == S(0), vf::fmt("%s: last row entry (%d,%d) is %.9g, not 0", who.c_str(), D, i, static_cast<double>(M(D, i))));}
  }
  for (int i = 0; i < D; ++i) {
    for (int j = i + 1; j < D; ++j) {
      c.check(M(i, j) == -M(j, i), vf::fmt("%s: linear part not antisymmetric: (%d,%d)=%.17g, (%d,%d)=%.17g", who.c_str(), i, j,
        static_cast<double>(M(i, j)), j, i, static_cast<double>(M(j, i))));
    }
  }
  std::vector<LD> x;
  for (int d = 0; d < D; ++d) {x.push_back(M(d, D));}
  if (D == 2) {x.push_back(M(1, 0));} else {x.push_back(M(2, 1)); x.push_back(M(0, 2)); x.push_back(M(1, 0));}
  return x;
}

template<typename S, int D>
void body(vf::Ctx & c)
{
  const int p = (D == 2) ? 3 : 6;
  const bool isFloat = sizeof(S) == 4;
  typedef typename Types<S, D>::Cart Cart;
  typedef typename Types<S, D>::Homo Homo;

  // ---------------- generation ----------------
  CaseData<S, D> cd;
  size_t nc = c.s.pick("n_class", {2, 3, 1});
  cd.n = (nc == 0) ? static_cast<int>(c.s.i("n", 6, 12)) : (nc == 1 ? static_cast<int>(c.s.i("n", 13, 60)) : static_cast<int>(c.s.len("n", 61, 500)));
  const int n = cd.n;
  // identity correspondences / permuted / permuted + unmatched extra points / each source point matched ~3 times
  // ... / identity pairing except for a 3-cycle among interior points (first and last pair stay in place)
  size_t layout = c.s.pick("layout", {1, 2, 2, 1, 1});
  int extraS = 0, extraT = 0;
  if (layout == 2) {extraS = static_cast<int>(c.s.i("extra_source", 0, 6)); extraT = static_cast<int>(c.s.i("extra_target", 0, 6));}
  const double Llo = isFloat ? 0.05 : 0.02, Lhi = isFloat ? 20.0 : 50.0;
  const double L = c.s.rlog("cloud_size", Llo, Lhi);
  size_t offc = isFloat ? c.s.pick("centre_offset", {4, 2, 1}) : c.s.pick("centre_offset", {2, 2, 1});
  size_t nmode = c.s.pick("normal_mode", {3, 3, 1});   // random / rotated box faces / nearly parallel
  size_t tc = c.s.pick("translation", {1, 1, 3});      // zero / 1e-3 diameter / up to the diameter
  size_t rc = c.s.pick("rotation", {3, 2, 4});         // none / tiny / up to 0.1 rad
  double theta = 0;
  if (rc == 1) {theta = c.s.rlog("theta", 1e-7, 1e-3);} else if (rc == 2) {theta = c.s.r("theta", 1e-3, 0.1);}
  size_t noise = c.s.pick("noise", {4, 1, 1, 1});      // none / 1e-6 / 1e-3 / 1e-2 of the cloud size
  double tfrac = (tc == 0) ? 0.0 : (tc == 1 ? 1e-3 : c.s.r("translation_fraction", 0.0, 1.0));
  const double kk = c.s.rlog("precond_scale", std::max(1e-3, Llo / L), std::min(1e3, Lhi / L));
  cd.k = static_cast<S>(kk);
  cd.normalW = c.s.flag("normal_w_is_1", 1, 3) ? S(1) : S(0);
  vf::Rng rng(c.s.seed("content"));

  cd.theta = theta;
  cd.L = L;
  cd.noisy = noise != 0;
  const int Ns = (layout == 3) ? std::max(D + 1, n / 3) : n + extraS, Nt = n + extraT;
  // index maps
  std::vector<int> ps(Ns), pt(Nt);
  for (int i = 0; i < Ns; ++i) {ps[i] = i;}
  for (int i = 0; i < Nt; ++i) {pt[i] = i;}
  if (layout == 4) {
    // complete pairing that looks like the identity at both ends: three interior targets rotated
    if (n >= 5) {
      int a = 1 + static_cast<int>(rng.below(static_cast<uint64_t>(n - 4)));
      int b = a + 1 + static_cast<int>(rng.below(static_cast<uint64_t>(n - 2 - a - 1 + 1) > 1 ? static_cast<uint64_t>(n - 3 - a) : 1));
      if (b >= n - 2) {b = n - 3;}
      if (b <= a) {b = a + 1;}
      int cidx = n - 2;
      int tb = pt[b], tc = pt[cidx], ta = pt[a];
      pt[a] = tb; pt[b] = tc; pt[cidx] = ta;
    }
  } else if (layout != 0) {
    for (int i = Ns - 1; i > 0; --i) {std::swap(ps[i], ps[rng.below(i + 1)]);}
    for (int i = Nt - 1; i > 0; --i) {std::swap(pt[i], pt[rng.below(i + 1)]);}
  }
  if (layout == 3) {
    // more correspondences than source points: source k is paired with about three different targets
    cd.si.resize(n);
    for (int r = 0; r < n; ++r) {cd.si[r] = r % Ns;}
    for (int i = n - 1; i > 0; --i) {std::swap(cd.si[i], cd.si[rng.below(i + 1)]);}
  } else {
    cd.si.assign(ps.begin(), ps.begin() + n);
  }
  cd.ti.assign(pt.begin(), pt.begin() + n);
  bool crossed = false;
  for (int r = 0; r < n; ++r) {crossed = crossed || cd.si[r] != cd.ti[r];}

  // source cloud
  double ctr[3] = {0, 0, 0};
  double offmag = (offc == 0) ? 0.0 : (offc == 1 ? 2.0 * L : 10.0 * L);
  {
    double dir[3] = {rng.gauss(), rng.gauss(), D == 3 ? rng.gauss() : 0.0};
    double nn = std::sqrt(dir[0] * dir[0] + dir[1] * dir[1] + dir[2] * dir[2]);
    double mag = offmag * rng.u();
    for (int d = 0; d < D; ++d) {ctr[d] = mag * dir[d] / nn;}
  }
  cd.src.resize(Ns); cd.tgt.resize(Nt); cd.nrm.resize(Nt);
  for (int i = 0; i < Ns; ++i) {for (int d = 0; d < D; ++d) {cd.src[i][d] = static_cast<S>(ctr[d] + L * (rng.u() - 0.5));}}
  // motion (long double): rotation about a random unit axis (3-D) / signed angle (2-D), translation <= diameter
  LD axis[3] = {0, 0, 1};
  if (D == 3) {
    double a[3] = {rng.gauss(), rng.gauss(), rng.gauss()};
    double nn = std::sqrt(a[0] * a[0] + a[1] * a[1] + a[2] * a[2]);
    for (int d = 0; d < 3; ++d) {axis[d] = a[d] / nn;}
  } else if (rng.below(2)) {axis[2] = -1;}
  LD tt[3] = {0, 0, 0};
  {
    double dir[3] = {rng.gauss(), rng.gauss(), D == 3 ? rng.gauss() : 0.0};
    double nn = std::sqrt(dir[0] * dir[0] + dir[1] * dir[1] + dir[2] * dir[2]);
    double mag = tfrac * L * std::sqrt(static_cast<double>(D));
    // the translation the estimator can return is an S value: make the truth representable
    for (int d = 0; d < D; ++d) {tt[d] = static_cast<S>(mag * dir[d] / nn);}
  }
  const LD th = theta, sn = sinl(th), cs1 = 1 - cosl(th);
  const double nlvl[4] = {0.0, 1e-6, 1e-3, 1e-2};
  auto moved = [&](const std::array<S, D> & sp, std::array<S, D> & out) {
      LD s[3] = {0, 0, 0};
      for (int d = 0; d < D; ++d) {s[d] = sp[d];}
      LD as[3] = {axis[1] * s[2] - axis[2] * s[1], axis[2] * s[0] - axis[0] * s[2], axis[0] * s[1] - axis[1] * s[0]};
      LD aas[3] = {axis[1] * as[2] - axis[2] * as[1], axis[2] * as[0] - axis[0] * as[2], axis[0] * as[1] - axis[1] * as[0]};
      for (int d = 0; d < D; ++d) {
        LD q = s[d] + sn * as[d] + cs1 * aas[d] + tt[d];
        if (noise != 0) {q += nlvl[noise] * L * rng.gauss();}
        out[d] = static_cast<S>(q);
      }
    };
  // unmatched target points: anywhere in the cloud
  for (int i = 0; i < Nt; ++i) {for (int d = 0; d < D; ++d) {cd.tgt[i][d] = static_cast<S>(ctr[d] + L * (rng.u() - 0.5));}}
  for (int r = 0; r < n; ++r) {moved(cd.src[cd.si[r]], cd.tgt[cd.ti[r]]);}
  // normals (unit, per target point)
  double Q[3][3] = {{1, 0, 0}, {0, 1, 0}, {0, 0, 1}};
  {
    double g[3][3];
    for (int a = 0; a < D; ++a) {for (int d = 0; d < D; ++d) {g[a][d] = rng.gauss();}}
    for (int a = 0; a < D; ++a) {
      for (int pass = 0; pass < 2; ++pass) {
        for (int b = 0; b < a; ++b) {
          double dt = 0;
          for (int d = 0; d < D; ++d) {dt += g[a][d] * g[b][d];}
          for (int d = 0; d < D; ++d) {g[a][d] -= dt * g[b][d];}
        }
        double nn = 0;
        for (int d = 0; d < D; ++d) {nn += g[a][d] * g[a][d];}
        nn = std::sqrt(nn);
        for (int d = 0; d < D; ++d) {g[a][d] /= (nn > 0 ? nn : 1);}
      }
      for (int d = 0; d < D; ++d) {Q[a][d] = g[a][d];}
    }
  }
  const double tilt = std::pow(10.0, rng.uniform(-2.0, -0.5));
  for (int i = 0; i < Nt; ++i) {
    double v[3] = {0, 0, 0};
    if (nmode == 0) {
      for (int d = 0; d < D; ++d) {v[d] = rng.gauss();}
    } else if (nmode == 1) {
      int a = (i < D) ? i : static_cast<int>(rng.below(D));
      double sg = rng.below(2) ? 1.0 : -1.0;
      for (int d = 0; d < D; ++d) {v[d] = sg * Q[a][d];}
    } else {
      for (int d = 0; d < D; ++d) {v[d] = Q[0][d] + tilt * rng.gauss();}
    }
    double nn = 0;
    for (int d = 0; d < D; ++d) {nn += v[d] * v[d];}
    nn = std::sqrt(nn);
    if (!(nn > 1e-12)) {v[0] = 1; nn = 1; for (int d = 1; d < D; ++d) {v[d] = 0;}}
    for (int d = 0; d < D; ++d) {cd.nrm[i][d] = static_cast<S>(v[d] / nn);}
  }
  // truth
  for (int d = 0; d < D; ++d) {cd.xTrue[d] = tt[d];}
  if (D == 2) {cd.xTrue[2] = th * axis[2];} else {for (int d = 0; d < 3; ++d) {cd.xTrue[3 + d] = th * axis[d];}}

  // points (and normals) that no correspondence refers to are not part of the problem: optionally they are an
  // invalid-return marker far away, or NaN
  if (layout == 2 && (extraS > 0 || extraT > 0)) {
    const size_t junk = c.s.pick("unmatched_points_are", {3, 1, 1});
    if (junk != 0) {
      std::vector<char> su(static_cast<size_t>(Ns), 0), tu(static_cast<size_t>(Nt), 0);
      for (int r = 0; r < n; ++r) {su[static_cast<size_t>(cd.si[r])] = 1; tu[static_cast<size_t>(cd.ti[r])] = 1;}
      const S bad = junk == 2 ? std::numeric_limits<S>::quiet_NaN() : static_cast<S>((isFloat ? 1e4 : 1e8) * L);
      for (int i = 0; i < Ns; ++i) {if (!su[static_cast<size_t>(i)]) {for (int d = 0; d < D; ++d) {cd.src[i][d] = bad;}}}
      for (int i = 0; i < Nt; ++i) {if (!tu[static_cast<size_t>(i)]) {for (int d = 0; d < D; ++d) {cd.tgt[i][d] = bad; cd.nrm[i][d] = junk == 2 ? bad : cd.nrm[i][d];}}}
      c.label(junk == 1 ? "unmatched-points-are-far-markers" : "unmatched-points-are-NaN");
    }
  }
  // references and domain
  Ref raw = buildRef<S, D>(cd, false), pre = buildRef<S, D>(cd, true);
  if (!raw.inDomain && !pre.inDomain) {c.skip();}
  c.labelIf(!raw.inDomain, "raw-problem-outside-domain(cond>=1e6)");
  c.labelIf(!pre.inDomain, "preconditioned-problem-outside-domain(cond>=1e6)");
  c.labelIf(isFloat && ((raw.inDomain && !raw.checked) || (pre.inDomain && !pre.checked)), "float:p*eps*cond>0.25(structure-only)");
  c.labelIf(raw.inDomain && raw.lmax / raw.lmin >= 1e4L, "raw-cond>=1e4");
  c.labelIf(theta == 0 && !cd.noisy, "pure-translation(noiseless)");
  c.labelIf(theta > 0 && !cd.noisy, "rotation(noiseless)");
  c.labelIf(cd.noisy, "noisy");
  c.labelIf(crossed, "source-index!=target-index");
  c.labelIf(layout == 2 && (extraS > 0 || extraT > 0), "unmatched-extra-points");
  c.labelIf(layout == 3, "source-points-matched-several-times");
  c.labelIf(layout == 4, "identity-pairing-except-an-interior-cycle");
  c.labelIf(kk < 1, "precond-scale<1");
  c.labelIf(kk > 1, "precond-scale>1");
  c.labelIf(kk == 1, "precond-scale-exactly-1");
  c.labelIf(kk <= 1e-2 || kk >= 1e2, "precond-scale-extreme(<=1e-2|>=1e2)");
  c.labelIf(n >= 100, "n>=100");
  c.labelIf(cd.normalW == S(1), "homogeneous-normal-w=1");
  c.nontrivial(theta != 0 && n >= 2 * p);
  const int reuseVariant = static_cast<int>(c.s.i("reused_estimator_variant", 0, 3));   // (aligned, homogeneous) bits
  c.label("estimator-reused(larger-problem-first)");
  const bool estimatorCopied = c.s.flag("estimator_copied_after_configuration");
  cd.decoratedCorrespondences = c.s.flag("correspondence_records_carry_distance_and_weight", 1, 3);
  if (cd.decoratedCorrespondences) {c.label("correspondence-records-with-distance-and-weight");}
  if (estimatorCopied) {c.label("estimator-copied-after-configuration");}
  c.commit();

  // ---------------- execution: 8 solves ----------------
  struct Res {std::vector<LD> x; bool have = false; const char * name = "";};
  Res res[2][2][2];   // [pre][aligned][homo]
  static const char * names[2][2][2] = {
    {{"raw/index-based/Cartesian", "raw/index-based/homogeneous"}, {"raw/aligned/Cartesian", "raw/aligned/homogeneous"}},
    {{"preconditioned/index-based/Cartesian", "preconditioned/index-based/homogeneous"},
      {"preconditioned/aligned/Cartesian", "preconditioned/aligned/homogeneous"}}};
  LD fwd[2] = {0, 0};   // forward tolerance (in the problem's own unknowns) of the worst solve of each problem
  for (int ip = 0; ip < 2; ++ip) {
    const Ref & R = ip ? pre : raw;
    if (!R.inDomain) {continue;}
    for (int ia = 0; ia < 2; ++ia) {
      for (int ih = 0; ih < 2; ++ih) {
        const std::string who = names[ip][ia][ih];
        Eigen::Matrix<S, D + 1, D + 1> M = ih ? solve<Homo, S, D>(cd, ip != 0, ia != 0) : solve<Cart, S, D>(cd, ip != 0, ia != 0);
        std::vector<LD> x = readBack<S, D>(c, M, who);
        // unknowns of the problem actually solved: (k t, w)
        std::vector<LD> xs = x;
        for (int d = 0; d < D; ++d) {xs[d] *= R.scale;}
        res[ip][ia][ih].x = xs; res[ip][ia][ih].have = true; res[ip][ia][ih].name = names[ip][ia][ih];
        if (!R.checked) {continue;}
        // (i) normal equations
        std::vector<LD> g(p, 0);
        for (int r = 0; r < n; ++r) {
          const LD * row = &R.J[static_cast<size_t>(r) * p];
          LD e = -R.Y[r];
          for (int t = 0; t < p; ++t) {e += row[t] * xs[t];}
          for (int t = 0; t < p; ++t) {g[t] += row[t] * e;}
        }
        const LD ng = norm2(g), nx = norm2(xs);
        const LD bracket = residualBound<S, D>(R, nx);
        c.maxStat(ip ? "preconditioned: normal-eq residual / bracket" : "raw: normal-eq residual / bracket",
          bracket > 0 ? static_cast<double>(ng / bracket) : (ng > 0 ? INFINITY : 0.0));
        c.maxStat("normal-eq residual relative to |J^T Y|", R.normJtY > 0 ? static_cast<double>(ng / R.normJtY) : 0.0);
        c.check(ng <= K_TOL * bracket,
          vf::fmt("%s: parameters read back from the matrix violate the normal equations of the linearised point-to-plane problem: "
          "|J^T(Jx-Y)| = %.3g > %.3g (n=%d, cond(JtJ)=%.3g, |J^T Y|=%.3g, x=(%s))", who.c_str(), static_cast<double>(ng),
          static_cast<double>(K_TOL * bracket), n, static_cast<double>(R.lmax / R.lmin), static_cast<double>(R.normJtY),
          [&] {std::string s; for (LD v : x) {s += vf::fmt("%.6g ", static_cast<double>(v));} return s;} ().c_str()));
        const LD f = K_TOL * bracket / R.lmin;
        fwd[ip] = std::max(fwd[ip], f);
        // (ii)/(iii) recovery of the generating motion (noiseless data only)
        if (!cd.noisy) {
          const LD eps = vf::epsOf<S>();
          LD dx = 0;
          for (int t = 0; t < p; ++t) {
            LD truth = cd.xTrue[t] * (t < D ? R.scale : 1.0L);
            dx += (xs[t] - truth) * (xs[t] - truth);
          }
          dx = sqrtl(dx);
          const LD lin = sqrtl(static_cast<LD>(n)) * R.smax * (th * th / 2 + th * th * th / 6) * 1.01L;
          const LD rnd = 4 * eps * sqrtl(static_cast<LD>(n)) * R.pmax;
          const LD tolT = (lin + rnd) / sqrtl(R.lmin) + f;
          if (theta == 0) {
            c.maxStat(ip ? "preconditioned: pure-translation error / tolerance" : "raw: pure-translation error / tolerance", static_cast<double>(dx / tolT));
            c.maxStat("pure-translation error relative to |t| (or absolute if t=0)",
              static_cast<double>(dx / (nx > 0 ? nx : 1.0L)));
            c.check(dx <= tolT, vf::fmt("%s: pure translation not recovered: |x - (t,0)| = %.3g > %.3g (rounding-level tolerance), |t|=%.3g",
              who.c_str(), static_cast<double>(dx), static_cast<double>(tolT), static_cast<double>(nx)));
          } else {
            c.maxStat(ip ? "preconditioned: rotation error / (C theta^2 bound)" : "raw: rotation error / (C theta^2 bound)", static_cast<double>(dx / tolT));
            c.check(dx <= tolT, vf::fmt("%s: rotation of %.3g rad recovered with error %.3g > C*theta^2 bound %.3g (sqrt(n) max|s| / sigma_min = %.3g)",
              who.c_str(), theta, static_cast<double>(dx), static_cast<double>(tolT),
              static_cast<double>(sqrtl(static_cast<LD>(n)) * R.smax / sqrtl(R.lmin))));
          }
        }
      }
    }
  }

  // (iv) metamorphic relations
  auto dist = [&](const std::vector<LD> & a, const std::vector<LD> & b, LD sa, LD sb) {
      // a, b in their own unknowns; compare after mapping both translations by sa, sb
      LD s = 0;
      for (int t = 0; t < p; ++t) {
        LD va = a[t] * (t < D ? sa : 1.0L), vb = b[t] * (t < D ? sb : 1.0L);
        s += (va - vb) * (va - vb);
      }
      return sqrtl(s);
    };
  for (int ip = 0; ip < 2; ++ip) {
    const Ref & R = ip ? pre : raw;
    if (!R.checked) {continue;}
    const Res & base = res[ip][0][0];
    for (int ia = 0; ia < 2; ++ia) {
      for (int ih = 0; ih < 2; ++ih) {
        if (ia == 0 && ih == 0) {continue;}
        const LD d = dist(base.x, res[ip][ia][ih].x, 1, 1);
        c.maxStat(ia && !ih ? "index-based vs aligned / tolerance" : "Cartesian vs homogeneous (and aligned) / tolerance",
          fwd[ip] > 0 ? static_cast<double>(d / (2 * fwd[ip])) : (d > 0 ? INFINITY : 0.0));
        c.check(d <= 2 * fwd[ip], vf::fmt("%s and %s give different answers: |dx| = %.3g > %.3g", base.name, res[ip][ia][ih].name,
          static_cast<double>(d), static_cast<double>(2 * fwd[ip])));
      }
    }
  }
  // (v) history independence: an estimator that solved a larger, unrelated problem first must give the answer of a
  // fresh estimator (same arithmetic on the same rows; compared at the forward tolerance, not bitwise)
  for (int ip = 0; ip < 2; ++ip) {
    const Ref & R = ip ? pre : raw;
    if (!R.checked) {continue;}
    const int ia = reuseVariant & 1, ih = (reuseVariant >> 1) & 1;
    Eigen::Matrix<S, D + 1, D + 1> M = ih ? solve<Homo, S, D>(cd, ip != 0, ia != 0, true, estimatorCopied) : solve<Cart, S, D>(cd, ip != 0, ia != 0, true, estimatorCopied);
    std::vector<LD> xs = readBack<S, D>(c, M, std::string("reused estimator, ") + names[ip][ia][ih]);
    for (int d = 0; d < D; ++d) {xs[d] *= R.scale;}
    const LD d = dist(res[ip][ia][ih].x, xs, 1, 1);
    c.maxStat("reused vs fresh estimator / tolerance", fwd[ip] > 0 ? static_cast<double>(d / (2 * fwd[ip])) : (d > 0 ? INFINITY : 0.0));
    c.check(d <= 2 * fwd[ip], vf::fmt("%s: an estimator object that solved a larger problem before gives a different answer than a fresh one: |dx| = %.3g > %.3g (n=%d)",
      names[ip][ia][ih], static_cast<double>(d), static_cast<double>(2 * fwd[ip]), n));
  }
  if (raw.checked && pre.checked) {
    // exact solutions of the two problems differ by the rounding of k*point in S:
    const LD eps = vf::epsOf<S>();
    LD nxp = norm2(res[1][0][0].x);
    const LD gpre = eps * (pre.normJF * (2 * sqrtl(static_cast<LD>(n)) * pre.pmax + sqrtl(static_cast<LD>(n) * D) * pre.smax * nxp) +
      sqrtl(static_cast<LD>(n) * D) * pre.smax * pre.normY) / pre.lmin;
    const LD k = pre.scale;
    for (int ia = 0; ia < 2; ++ia) {
      for (int ih = 0; ih < 2; ++ih) {
        LD d, tol;
        if (k >= 1) {   // compare in the raw unknowns
          d = dist(res[0][ia][ih].x, res[1][ia][ih].x, 1, 1 / k);
          tol = fwd[0] + fwd[1] + K_TOL * gpre;
        } else {        // compare in the preconditioned unknowns
          d = dist(res[0][ia][ih].x, res[1][ia][ih].x, k, 1);
          tol = fwd[0] + fwd[1] + K_TOL * gpre;
        }
        c.maxStat("raw vs preconditioned / tolerance", tol > 0 ? static_cast<double>(d / tol) : (d > 0 ? INFINITY : 0.0));
        LD nr = norm2(res[0][ia][ih].x);
        c.maxStat("raw vs preconditioned, relative to |x|", nr > 0 ? static_cast<double>(dist(res[0][ia][ih].x, res[1][ia][ih].x, 1, 1 / k) / nr) : 0.0);
        c.check(d <= tol, vf::fmt("%s and %s (scale %.6g) give different answers: |dx| = %.3g > %.3g", res[0][ia][ih].name, res[1][ia][ih].name,
          static_cast<double>(k), static_cast<double>(d), static_cast<double>(tol)));
      }
    }
  }
}

const char * kRule =
  "n in 6..500 (classes 6..12 / 13..60 / 61..500); source cloud uniform in a box of size L (log-uniform 0.02..50, float 0.05..20) whose centre is "
  "0 / <=2L / <=10L from the origin; unit normals random / +-axes of a random frame / nearly parallel (tilt 1e-2..0.3); motion: rotation 0 / "
  "1e-7..1e-3 / 1e-3..0.1 rad about a random axis, translation 0 / 1e-3 / [0,1] of the box diagonal; noise none / 1e-6 / 1e-3 / 1e-2 of L; "
  "correspondences identity / permuted / permuted with up to 6 unmatched extra points per set; preconditioning scale k log-uniform in "
  "[1e-3,1e3] intersected with k*L in the cloud-size band; homogeneous normals carry w=0 or w=1. Each case: Cartesian and homogeneous type x "
  "index-based/aligned x raw/preconditioned. A solve whose normal matrix has cond>=1e6 is not run; the case is skipped when both problems "
  "are outside. Non-trivial: rotation != 0 and n >= 2*(number of parameters).";

const std::vector<vf::Sub> kSubs = {
  {"double_2d", body<double, 2>, kRule},
  {"double_3d", body<double, 3>, kRule},
  {"float_2d", body<float, 2>, kRule},
  {"float_3d", body<float, 3>, kRule},
};

}  // namespace

VF_HARNESS(kSubs)
