// C04 - Rigid registration from correspondences (closed-form SVD) returns the proper rigid motion
#include "vf_main.hpp"

#include <Eigen/Dense>
#include <algorithm>
#include <numeric>
#include "romea_core_common/transform/estimation/FindRigidTransformationBySVD.hpp"

using namespace romea::core;

namespace {

using Eigen::MatrixXd;
using Eigen::VectorXd;

struct Problem
{
  int D = 2;
  int n = 0;                       // stored points per set
  MatrixXd src, tgt;               // D x n, storage order (tgt storage may be permuted)
  std::vector<std::pair<int, int>> corr;  // (source index, target index), list order may be shuffled
  MatrixXd Rtrue;                  // D x D
  VectorXd ttrue;                  // D
  double size = 1;                 // cloud extent
  double noise = 0;                // sigma (absolute)
  double precond = 0;              // 0: none, else isotropic scale applied to both sets
  bool aligned = false;            // use the aligned overload (identity correspondences over all stored points)
  bool reusedSets = false;         // the PreconditionedPointSet objects held a larger, unrelated set before
  bool assignedSets = false;       // ... and receive the new content by copy assignment instead of compute()
  int junkUnmatched = 0;           // points no correspondence refers to: 1 = a far "no return" marker, 2 = NaN
  int cloudMode = 0;
  double spread2 = 1, spread3 = 1; // s2/s1, s3/s1 of the centred used source points
};

MatrixXd randomRotation(vf::Rng & rng, int D, double angle)
{
  if (D == 2) {
    MatrixXd R(2, 2);
    R << std::cos(angle), -std::sin(angle), std::sin(angle), std::cos(angle);
    return R;
  }
  Eigen::Vector3d ax(rng.gauss(), rng.gauss(), rng.gauss());
  if (ax.norm() < 1e-9) {ax = Eigen::Vector3d(0, 0, 1);}
  ax.normalize();
  Eigen::Matrix3d R = Eigen::AngleAxisd(angle, ax).toRotationMatrix();
  return R;
}

// cloud modes: 0 uniform box, 1 clusters, 2 coplanar exact (axis-aligned plane; 3D), 3 coplanar rotated,
// 4 nearly coplanar, 5 collinear, 6 lattice
MatrixXd genCloudPoints(vf::Rng & rng, int D, int n, int mode, double size, double thickness)
{
  MatrixXd P(D, n);
  Eigen::Vector3d dir(rng.gauss(), rng.gauss(), rng.gauss());
  dir.normalize();
  MatrixXd Q = (D == 3) ? randomRotation(rng, 3, rng.uniform(0.3, 2.5)) : MatrixXd::Identity(2, 2);
  VectorXd centre(D);
  for (int d = 0; d < D; ++d) {centre[d] = rng.uniform(-2 * size, 2 * size);}
  for (int k = 0; k < n; ++k) {
    VectorXd p(D);
    switch (mode) {
      case 1: {
          int cl = static_cast<int>(rng.below(4));
          for (int d = 0; d < D; ++d) {p[d] = size * (0.8 * (((cl >> d) & 1) ? 1 : -1) * (d < 2 ? 1 : ((cl % 3) - 1)) + 0.05 * rng.gauss());}
          break;
        }
      case 2: case 3: case 4:
        for (int d = 0; d < D; ++d) {p[d] = rng.uniform(-size, size);}
        if (D == 3) {p[2] = (mode == 4) ? thickness * size * rng.uniform(-1, 1) : 0.0;}
        if (D == 3 && mode != 2) {p = Q * p;}
        break;
      case 5: {
          double s = rng.uniform(-size, size);
          for (int d = 0; d < D; ++d) {p[d] = s * dir[d];}
          break;
        }
      case 6:
        for (int d = 0; d < D; ++d) {p[d] = size * 0.25 * static_cast<double>(rng.range(-4, 4));}
        break;
      default:
        for (int d = 0; d < D; ++d) {p[d] = rng.uniform(-size, size);}
    }
    P.col(k) = p + centre;
  }
  return P;
}

Problem genProblem(vf::Ctx & c, int D)
{
  Problem pb;
  pb.D = D;
  pb.n = static_cast<int>(c.s.len("n", 3, 500));
  if (D == 3) {
    pb.cloudMode = static_cast<int>(c.s.pick("cloud_mode", {4, 2, 3, 3, 3, 1, 1}));
  } else {
    size_t m = c.s.pick("cloud_mode2d", {5, 2, 1, 1});
    pb.cloudMode = m == 0 ? 0 : m == 1 ? 1 : m == 2 ? 5 : 6;
  }
  pb.size = c.s.rlog("size", 1e-8, 1e3);   // from sub-micrometre objects to kilometres: the statement is scale free
  double thickness = (pb.cloudMode == 4) ? std::pow(10.0, -c.s.uni("thickness_exp", 3.0, 12.0)) : 0.0;
  size_t ak = c.s.pick("angle_class", {1, 1, 1, 5});
  double angle = ak == 0 ? 0.0 : ak == 1 ? M_PI / 2 : ak == 2 ? M_PI : c.s.uni("angle", -M_PI, M_PI);
  double tscale = c.s.pick("t_class", {1, 3, 2}) == 0 ? 0.0 : c.s.rlog("t_rel", 1e-3, 10.0);
  // identity, permuted, subset(+permuted), identity storage except a 3-cycle among interior targets (ends in place)
  size_t ck = c.s.pick("corr_mode", {2, 2, 2, 1});
  pb.aligned = (ck == 0) && c.s.flag("aligned_overload");
  size_t nk = c.s.pick("noise_class", {3, 2});
  double noiseRel = nk == 0 ? 0.0 : c.s.rlog("noise_rel", 1e-5, 1e-2);
  pb.precond = c.s.pick("precond_class", {1, 1}) == 0 ? 0.0 : c.s.rlog("precond_scale", 1e-3, 1e3);
  uint64_t seed = c.s.seed("content_seed");
  vf::Rng rng(seed);

  pb.src = genCloudPoints(rng, D, pb.n, pb.cloudMode, pb.size, thickness);
  pb.Rtrue = randomRotation(rng, D, angle);
  pb.ttrue = VectorXd(D);
  for (int d = 0; d < D; ++d) {pb.ttrue[d] = tscale * pb.size * rng.uniform(-1, 1);}
  pb.noise = noiseRel * pb.size;
  // target storage order
  std::vector<int> perm(pb.n);
  std::iota(perm.begin(), perm.end(), 0);
  if (ck == 3) {
    if (pb.n >= 5) {
      int a = 1 + static_cast<int>(rng.below(static_cast<uint64_t>(pb.n - 4))), b = a + 1, cc = pb.n - 2;
      if (b >= cc) {b = cc - 1;}
      if (b > a) {int ta = perm[a]; perm[a] = perm[b]; perm[b] = perm[cc]; perm[cc] = ta;}
    }
  } else if (ck >= 1) {for (int k = pb.n - 1; k > 0; --k) {std::swap(perm[k], perm[rng.below(k + 1)]);}}
  pb.tgt = MatrixXd(D, pb.n);
  for (int k = 0; k < pb.n; ++k) {
    VectorXd t = pb.Rtrue * pb.src.col(k) + pb.ttrue;
    for (int d = 0; d < D; ++d) {t[d] += pb.noise * rng.gauss();}
    pb.tgt.col(perm[k]) = t;
  }
  // correspondences
  std::vector<int> used(pb.n);
  std::iota(used.begin(), used.end(), 0);
  if (ck == 3) {
    // full-size list in storage order: first pair (0,0), last pair (n-1,n-1)
  } else if (ck == 2 && pb.n > 3) {
    for (int k = pb.n - 1; k > 0; --k) {std::swap(used[k], used[rng.below(k + 1)]);}
    int m = std::max(3, static_cast<int>(pb.n * rng.uniform(0.4, 0.9)));
    used.resize(std::min(m, pb.n));
  } else if (ck == 1) {
    for (int k = pb.n - 1; k > 0; --k) {std::swap(used[k], used[rng.below(k + 1)]);}
  }
  for (int i : used) {pb.corr.emplace_back(i, perm[i]);}
  // conditioning of the used source points
  MatrixXd U(D, static_cast<int>(used.size()));
  for (size_t k = 0; k < used.size(); ++k) {U.col(k) = pb.src.col(used[k]);}
  VectorXd mean = U.rowwise().mean();
  U.colwise() -= mean;
  Eigen::JacobiSVD<MatrixXd> svd(U);
  VectorXd sv = svd.singularValues();
  pb.spread2 = sv[0] > 0 ? sv[1] / sv[0] : 0;
  pb.spread3 = (D == 3 && sv[0] > 0) ? sv[2] / sv[0] : 1;

  static const char * modeNames[] = {"uniform", "clusters", "coplanar-3D-exact", "coplanar-3D-rotated", "near-coplanar", "collinear", "lattice"};
  c.label(modeNames[pb.cloudMode]);
  if (D == 3 && pb.spread3 < 1e-9 && pb.spread2 >= 0.05) {c.label("coplanar-3D(any)");}
  if (ck == 1) {c.label("permuted");}
  if (ck == 2) {c.label("subset");}
  if (ck == 3) {c.label("identity-pairing-except-an-interior-cycle");}
  if (pb.aligned) {c.label("aligned-overload");}
  if (pb.precond != 0) {c.label("preconditioned");}
  if (pb.noise > 0) {c.label("noisy");}
  if (ak == 2) {c.label("angle=pi");}
  c.nontrivial(static_cast<int>(pb.corr.size()) >= 4 && angle != 0.0);
  return pb;
}

// Kabsch/Umeyama reference (double) on the used correspondences
void umeyama(const Problem & pb, MatrixXd & R, VectorXd & t)
{
  const int D = pb.D, m = static_cast<int>(pb.corr.size());
  MatrixXd S(D, m), T(D, m);
  for (int k = 0; k < m; ++k) {S.col(k) = pb.src.col(pb.corr[k].first); T.col(k) = pb.tgt.col(pb.corr[k].second);}
  VectorXd sm = S.rowwise().mean(), tm = T.rowwise().mean();
  S.colwise() -= sm; T.colwise() -= tm;
  MatrixXd C = T * S.transpose();
  Eigen::JacobiSVD<MatrixXd> svd(C, Eigen::ComputeFullU | Eigen::ComputeFullV);
  MatrixXd Dg = MatrixXd::Identity(D, D);
  if ((svd.matrixU() * svd.matrixV().transpose()).determinant() < 0) {Dg(D - 1, D - 1) = -1;}
  R = svd.matrixU() * Dg * svd.matrixV().transpose();
  t = tm - R * sm;
}

double cost(const Problem & pb, const MatrixXd & R, const VectorXd & t)
{
  long double s = 0;
  for (const auto & cr : pb.corr) {s += (R * pb.src.col(cr.first) + t - pb.tgt.col(cr.second)).squaredNorm();}
  return static_cast<double>(s);
}

// runs the library estimator for one point type; returns the (D+1)x(D+1) matrix in double
template<class PT>
MatrixXd runLibrary(const Problem & pb)
{
  using S = typename PT::Scalar;
  constexpr int DIM = PointTraits<PT>::DIM;
  constexpr int SIZE = PointTraits<PT>::SIZE;
  PointSet<PT> src, tgt;
  auto conv = [&](const MatrixXd & M, int k) {
      PT p;
      for (int d = 0; d < DIM; ++d) {p[d] = static_cast<S>(M(d, k));}
      if (SIZE > DIM) {p[SIZE - 1] = S(1);}
      return p;
    };
  std::vector<Correspondence> corr;
  if (pb.aligned) {
    for (const auto & cr : pb.corr) {src.push_back(conv(pb.src, cr.first)); tgt.push_back(conv(pb.tgt, cr.second));}
  } else {
    std::vector<char> srcUsed(static_cast<size_t>(pb.n), 0), tgtUsed(static_cast<size_t>(pb.n), 0);
    for (const auto & cr : pb.corr) {srcUsed[static_cast<size_t>(cr.first)] = 1; tgtUsed[static_cast<size_t>(cr.second)] = 1;}
    auto junk = [&](int k) {
        PT p = PT::Zero();
        for (int d = 0; d < DIM; ++d) {
          p[d] = pb.junkUnmatched == 2 ? std::numeric_limits<S>::quiet_NaN() : static_cast<S>((sizeof(S) == 4 ? 1e5 : 1e9) * pb.size * (1 + (k + d) % 3));
        }
        if (SIZE > DIM) {p[SIZE - 1] = S(1);}
        return p;
      };
    for (int k = 0; k < pb.n; ++k) {
      src.push_back(pb.junkUnmatched != 0 && !srcUsed[static_cast<size_t>(k)] ? junk(k) : conv(pb.src, k));
      tgt.push_back(pb.junkUnmatched != 0 && !tgtUsed[static_cast<size_t>(k)] ? junk(k + 1) : conv(pb.tgt, k));
    }
    for (const auto & cr : pb.corr) {corr.emplace_back(static_cast<size_t>(cr.first), static_cast<size_t>(cr.second));}
  }
  FindRigidTransformationBySVD<PT> est;
  typename FindRigidTransformationBySVD<PT>::TransformationMatrixType H;
  if (pb.precond != 0) {
    PreconditionedPointSet<PT> ps, pt;
    if (pb.reusedSets) {
      // as the RANSAC model does between ICP iterations: the same preconditioned-set objects are recomputed for a
      // new (here smaller) set; nothing of the previous content or preconditioning may survive
      PointSet<PT> big;
      for (size_t k = 0; k < 2 * src.size() + 5; ++k) {
        PT q = PT::Zero();
        for (int d = 0; d < DIM; ++d) {q[d] = static_cast<S>(1e3 * pb.size * (1 + static_cast<double>((k * 7 + d) % 13)));}
        if (SIZE > DIM) {q[SIZE - 1] = S(1);}
        big.push_back(q);
      }
      typename PreconditionedPointSet<PT>::TranslationVector tv;
      tv.setConstant(static_cast<S>(3.5));
      ps.compute(big, static_cast<S>(0.125), tv);
      pt.compute(big, static_cast<S>(0.125), tv);
    }
    if (pb.reusedSets && pb.assignedSets) {
      // value semantics: assigning a freshly preconditioned set into a used holder must carry everything over
      ps = PreconditionedPointSet<PT>(src, static_cast<S>(pb.precond));
      PreconditionedPointSet<PT> tmp(tgt, static_cast<S>(pb.precond));
      pt = tmp;
    } else {
      ps.compute(src, static_cast<S>(pb.precond));
      pt.compute(tgt, static_cast<S>(pb.precond));
    }
    H = pb.aligned ? est.find(ps, pt) : est.find(ps, pt, corr);
  } else {
    H = pb.aligned ? est.find(src, tgt) : est.find(src, tgt, corr);
  }
  return H.template cast<double>();
}

MatrixXd runType(const Problem & pb, int type)
{
  if (pb.D == 2) {
    switch (type) {
      case 0: return runLibrary<Eigen::Vector2d>(pb);
      case 1: return runLibrary<HomogeneousCoordinates2d>(pb);
      case 2: return runLibrary<Eigen::Vector2f>(pb);
      default: return runLibrary<HomogeneousCoordinates2f>(pb);
    }
  }
  switch (type) {
    case 0: return runLibrary<Eigen::Vector3d>(pb);
    case 1: return runLibrary<HomogeneousCoordinates3d>(pb);
    case 2: return runLibrary<Eigen::Vector3f>(pb);
    default: return runLibrary<HomogeneousCoordinates3f>(pb);
  }
}

const char * typeName(int D, int type)
{
  static const char * n2[] = {"Vector2d", "Homogeneous2d", "Vector2f", "Homogeneous2f"};
  static const char * n3[] = {"Vector3d", "Homogeneous3d", "Vector3f", "Homogeneous3f"};
  return D == 2 ? n2[type] : n3[type];
}

void checkOne(vf::Ctx & c, const Problem & pb, int type, const MatrixXd & H, const MatrixXd & Rref, const VectorXd & tref)
{
  const int D = pb.D;
  const bool isFloat = type >= 2;
  const double eps = isFloat ? 1.1920929e-07 : 2.220446049250313e-16;
  const char * tn = typeName(D, type);
  VF_CHECK(c, H.allFinite(), "%s: estimate contains non-finite entries", tn);
  MatrixXd R = H.block(0, 0, D, D);
  VectorXd t = H.block(0, D, D, 1);
  // (i) proper rotation, last row
  double orth = (R.transpose() * R - MatrixXd::Identity(D, D)).norm();
  c.maxStat(isFloat ? "orthonormality(float)" : "orthonormality(double)", orth);
  VF_CHECK(c, orth <= 256 * eps, "%s: linear part not orthonormal (%.3g)", tn, orth);
  double det = R.determinant();
  VF_CHECK(c, std::fabs(det - 1.0) <= 256 * eps, "%s: determinant of the linear part is %.9g, expected +1 (n=%zu used pairs, spread s2/s1=%.3g s3/s1=%.3g)", tn, det, pb.corr.size(), pb.spread2, pb.spread3);
  for (int k = 0; k < D; ++k) {VF_CHECK(c, H(D, k) == 0.0, "%s: last row entry %d is %.9g, expected 0", tn, k, H(D, k));}
  VF_CHECK(c, H(D, D) == 1.0, "%s: H(last,last)=%.17g, expected 1", tn, H(D, D));

  if (pb.spread2 < 0.05) {return;}  // (nearly) collinear: outside the exact-recovery quantifier
  // magnitudes
  double diam = 2 * pb.size * std::sqrt(static_cast<double>(D));
  double cen = pb.src.rowwise().mean().norm();
  double mag = cen + diam + pb.ttrue.norm();
  if (pb.noise == 0) {
    // (ii) exact recovery. double: 1e-9 relative; float: input rounding eps_f * (coordinate magnitude / extent) / spread
    double relR = isFloat ? 2e-4 : 1e-9;
    if (isFloat) {relR = std::max(relR, 64 * eps * (mag / pb.size) / pb.spread2);}
    double eR = (R - pb.Rtrue).norm();
    c.maxStat(isFloat ? "noiseless-rotation-error(float)" : "noiseless-rotation-error(double)", eR);
    VF_CHECK(c, eR <= relR, "%s: rotation differs from the true one by %.3g (tol %.3g; n=%zu, mode %d, s2/s1=%.3g, s3/s1=%.3g, precond=%g)", tn, eR, relR, pb.corr.size(), pb.cloudMode, pb.spread2, pb.spread3, pb.precond);
    double eT = (t - pb.ttrue).norm();
    double tolT = relR * mag;
    c.maxStat(isFloat ? "noiseless-translation-error/mag(float)" : "noiseless-translation-error/mag(double)", eT / mag);
    VF_CHECK(c, eT <= tolT, "%s: translation differs from the true one by %.3g (tol %.3g, magnitude %.3g, precond=%g)", tn, eT, tolT, mag, pb.precond);
    double worst = 0;
    for (const auto & cr : pb.corr) {worst = std::max(worst, (R * pb.src.col(cr.first) + t - pb.tgt.col(cr.second)).norm());}
    VF_CHECK(c, worst <= 2 * tolT, "%s: a source point lands %.3g away from its target (tol %.3g)", tn, worst, 2 * tolT);
  } else {
    if (D == 3 && pb.spread3 < 0.05) {return;}  // noisy + (nearly) planar: optimum well defined but ill conditioned; only (i)
    // (iii) least-squares optimality: agreement with Umeyama, cost not larger than at nearby rigid motions
    double relR = isFloat ? 2e-3 : 1e-6;
    if (isFloat) {relR = std::max(relR, 64 * eps * (mag / pb.size) / std::min(pb.spread2, pb.spread3));}
    double eR = (R - Rref).norm(), eT = (t - tref).norm();
    c.maxStat(isFloat ? "umeyama-rotation-diff(float)" : "umeyama-rotation-diff(double)", eR);
    VF_CHECK(c, eR <= relR, "%s: rotation differs from the Kabsch/Umeyama optimum by %.3g (tol %.3g)", tn, eR, relR);
    VF_CHECK(c, eT <= relR * mag, "%s: translation differs from the Kabsch/Umeyama optimum by %.3g (tol %.3g)", tn, eT, relR * mag);
    if (!isFloat) {
      double c0 = cost(pb, R, t);
      vf::Rng rng(0x5eedULL + pb.corr.size());
      VectorXd ctr = pb.src.rowwise().mean();
      for (int k = 0; k < 20; ++k) {
        double a = std::pow(10.0, -rng.uniform(1, 3));
        MatrixXd dR = randomRotation(rng, D, a);
        VectorXd dt(D);
        for (int d = 0; d < D; ++d) {dt[d] = pb.size * a * rng.uniform(-1, 1);}
        MatrixXd R2 = R * dR;
        VectorXd t2 = R * (ctr - dR * ctr) + t + dt;   // rotate about the centroid, then shift
        double c1 = cost(pb, R2, t2);
        VF_CHECK(c, c0 <= c1 * (1 + 1e-9) + 1e-18 * mag * mag, "%s: cost %.17g is larger than %.17g at a nearby rigid motion: not least-squares optimal", tn, c0, c1);
      }
    }
  }
}

template<int D>
void svdBody(vf::Ctx & c)
{
  Problem pb = genProblem(c, D);
  int type = static_cast<int>(c.s.i("point_type", 0, 3));
  c.label(typeName(D, type));
  pb.reusedSets = c.s.flag("preconditioned_sets_reused");
  if (pb.reusedSets && pb.precond != 0) {c.label("preconditioned-set-objects-reused");}
  pb.assignedSets = c.s.flag("preconditioned_sets_copy_assigned", 1, 3);
  if (pb.reusedSets && pb.assignedSets && pb.precond != 0) {c.label("preconditioned-sets-copy-assigned-into-used-holders");}
  // points that no correspondence refers to are not part of the problem: they may be anything (an invalid-return marker
  // far away, NaN) - only meaningful for index-based lists that leave points out
  pb.junkUnmatched = static_cast<int>(c.s.pick("unmatched_points_are", {3, 1, 1}));
  if (pb.junkUnmatched != 0 && !pb.aligned && static_cast<int>(pb.corr.size()) < pb.n) {
    c.label(pb.junkUnmatched == 1 ? "unmatched-points-are-far-markers" : "unmatched-points-are-NaN");
  }
  c.commit();

  MatrixXd Rref;
  VectorXd tref;
  umeyama(pb, Rref, tref);
  MatrixXd H = runType(pb, type);
  checkOne(c, pb, type, H, Rref, tref);

  // (iv) metamorphic relations (exact-recovery domain only: well spread sets)
  if (pb.spread2 < 0.05 || (pb.noise > 0 && D == 3 && pb.spread3 < 0.05)) {return;}
  const bool isFloat = type >= 2;
  const double eps = isFloat ? 1.1920929e-07 : 2.220446049250313e-16;
  double diam = 2 * pb.size * std::sqrt(static_cast<double>(D));
  double mag = pb.src.rowwise().mean().norm() + diam + pb.ttrue.norm();
  double cond = (mag / pb.size) / std::min(pb.spread2, (pb.noise > 0 && D == 3) ? pb.spread3 : 1.0);
  double tol = 256 * eps * cond + (isFloat ? 2e-4 : 1e-9);
  auto same = [&](const MatrixXd & A, const MatrixXd & B, const char * what) {
      double dR = (A.block(0, 0, D, D) - B.block(0, 0, D, D)).norm();
      double dT = (A.block(0, D, D, 1) - B.block(0, D, D, 1)).norm();
      c.maxStat("metamorphic-rotation-diff/tol", dR / tol);
      VF_CHECK(c, dR <= tol && dT <= tol * mag, "%s changed the answer: rotation by %.3g, translation by %.3g (tol %.3g, %.3g)", what, dR, dT, tol, tol * mag);
    };
  // Cartesian <-> homogeneous (same scalar)
  same(H, runType(pb, type ^ 1), "switching between Cartesian and homogeneous points");
  // float <-> double
  if (isFloat) {same(H, runType(pb, type - 2), "switching between float and double");}
  // preconditioning on/off with another scale
  {
    Problem q = pb;
    q.precond = (pb.precond == 0) ? 37.5 : 0.0;
    same(H, runType(q, type), "isotropic preconditioning of both sets");
  }
  // order of the correspondences
  if (!pb.aligned && pb.corr.size() > 1) {
    Problem q = pb;
    std::reverse(q.corr.begin(), q.corr.end());
    std::rotate(q.corr.begin(), q.corr.begin() + q.corr.size() / 3, q.corr.end());
    same(H, runType(q, type), "reordering the correspondences");
    // index-based vs aligned overload on the same pairs
    Problem a = pb;
    a.aligned = true;
    same(H, runType(a, type), "aligned instead of index-based correspondences");
  }
}

const char * kRule =
  "n in 3..500 stored points, cloud modes uniform / clusters / exactly coplanar 3-D (axis-aligned plane) / coplanar rotated / nearly "
  "coplanar (thickness 1e-3..1e-12) / collinear / lattice, extent log-uniform 1e-2..1e3 around a random centre; rotation angle 0, pi/2, "
  "pi or uniform in [-pi,pi] about a random axis; translation 0 or up to 10x the extent; correspondences identity / permuted target "
  "storage + shuffled list / random subset (40-90 %); noise none or Gaussian 1e-5..1e-2 of the extent; isotropic preconditioning "
  "scale 1e-3..1e3 or none; one of the four point types of the dimension per case plus its Cartesian/homogeneous twin and its double "
  "counterpart for the metamorphic relations; aligned or index-based overloads. Sets whose used points have s2/s1 < 0.05 (nearly "
  "collinear) are only checked for 'proper rotation'. Non-trivial: >= 4 used pairs and a non-zero rotation angle.";

const std::vector<vf::Sub> kSubs = {
  {"svd2d", svdBody<2>, kRule},
  {"svd3d", svdBody<3>, kRule},
};

}  // namespace

VF_HARNESS(kSubs)
