// C18 - Check-ups classify by their thresholds; statuses aggregate as a severity order
#include "vf_main.hpp"

#include <climits>
#include <list>
#include <map>
#include <sstream>
#include <string>
#include <vector>

#include "romea_core_common/geodesy/WGS84Coordinates.hpp"
#include "romea_core_common/diagnostic/CheckupEqualTo.hpp"
#include "romea_core_common/diagnostic/CheckupGreaterThan.hpp"
#include "romea_core_common/diagnostic/CheckupLowerThan.hpp"
#include "romea_core_common/diagnostic/CheckupReliability.hpp"
#include "romea_core_common/diagnostic/Diagnostic.hpp"
#include "romea_core_common/diagnostic/DiagnosticReport.hpp"
#include "romea_core_common/diagnostic/DiagnosticStatus.hpp"

using romea::core::CheckupEqualTo;
using romea::core::CheckupGreaterThan;
using romea::core::CheckupLowerThan;
using romea::core::CheckupReliability;
using romea::core::Diagnostic;
using romea::core::DiagnosticReport;
using romea::core::DiagnosticStatus;

namespace {

const char * statusName(DiagnosticStatus s)
{
  switch (s) {
    case DiagnosticStatus::OK: return "OK";
    case DiagnosticStatus::WARN: return "WARN";
    case DiagnosticStatus::ERROR: return "ERROR";
    case DiagnosticStatus::STALE: return "STALE";
  }
  return "?";
}

template<typename T>
std::string pr(const T & v)
{
  std::ostringstream os;
  os << v;
  return os.str();
}

// ------------------------------------------------------------------------------------------------------------------
// threshold check-ups
// ------------------------------------------------------------------------------------------------------------------
enum Type { EQUAL_TO, GREATER_THAN, LOWER_THAN, RELIABILITY };
enum VClass { ON_THRESHOLD, ULP_BELOW, ULP_ABOVE, LATTICE, REAL_NEAR, HUGE_VALUE };

struct OpSpec
{
  bool timeout;     // Checkup<T>::timeout() instead of evaluate
  int vclass;
  bool upper;       // which threshold the boundary classes refer to (upper / lower; high / low)
  int64_t lattice;  // value in lattice units (class LATTICE)
  double real;      // class REAL_NEAR
  int huge;         // class HUGE_VALUE: index
};

struct Spec
{
  int type;
  std::string name;
  int64_t a, b;     // threshold constants in lattice units: target/min/max = a*u, epsilon = b*u ; reliability: low = a*u, high = b*u
  std::vector<OpSpec> ops;
  bool relOverride = false;   // reliability thresholds that are not 64ths (decimal fractions, per cent, any reals, the extremes)
  double relLow = 0, relHigh = 0;
};

template<typename T> struct Num;
template<> struct Num<double>
{
  static double unit() {return 1.0 / 16;}
  static double below(double x) {return std::nextafter(x, -INFINITY);}
  static double above(double x) {return std::nextafter(x, INFINITY);}
  static double fromReal(double x) {return x;}
  static double huge(int k)
  {
    static const double h[] = {1e300, -1e300, std::numeric_limits<double>::max(), -std::numeric_limits<double>::max(),
      1e-300, -1e-300, 0.0, -0.0, std::numeric_limits<double>::denorm_min(), 4503599627370497.0};
    return h[k];
  }
};
template<> struct Num<float>
{
  static float unit() {return 1.0f / 16;}
  static float below(float x) {return std::nextafterf(x, -INFINITY);}
  static float above(float x) {return std::nextafterf(x, INFINITY);}
  static float fromReal(double x) {return static_cast<float>(x);}
  static float huge(int k)
  {
    static const float h[] = {1e30f, -1e30f, std::numeric_limits<float>::max(), -std::numeric_limits<float>::max(),
      1e-30f, -1e-30f, 0.0f, -0.0f, std::numeric_limits<float>::denorm_min(), 8388609.0f};
    return h[k];
  }
};
template<> struct Num<int>
{
  static int unit() {return 1;}
  static int below(int x) {return x - 1;}
  static int above(int x) {return x + 1;}
  static int fromReal(double x) {return static_cast<int>(std::llround(x));}
  static int huge(int k)
  {
    static const int h[] = {1000000000, -1000000000, INT_MAX, INT_MIN, 1, -1, 0, 0, 2, 8388609};
    return h[k];
  }
};

struct Tally
{
  bool nearThreshold = false, onThr = false, ulpBelow = false, ulpAbove = false, huge = false, timeout = false;
  int evals = 0, verdictChanges = 0;
  int lastVerdict = -1;
};

// expected verdict: status + message end. All comparisons are exact: thresholds are lattice constants computed from
// integers (a-b)*u, (a+b)*u, exactly representable in T and in double; T -> double conversion is exact.
struct Expect {DiagnosticStatus status; const char * phrase;};

Expect expectThreshold(int type, double v, double lo, double hi)
{
  switch (type) {
    case EQUAL_TO:
      if (v < lo) {return {DiagnosticStatus::ERROR, " is too low."};}
      if (v > hi) {return {DiagnosticStatus::ERROR, " is too high."};}
      return {DiagnosticStatus::OK, " is OK."};
    case GREATER_THAN:
      return (v > lo) ? Expect{DiagnosticStatus::OK, " is OK."} : Expect{DiagnosticStatus::ERROR, " is too low."};
    default:
      return (v < hi) ? Expect{DiagnosticStatus::OK, " is OK."} : Expect{DiagnosticStatus::ERROR, " is too high."};
  }
}

template<typename T>
T materialize(const OpSpec & op, T lo, T hi, Tally & t)
{
  const T thr = op.upper ? hi : lo;
  switch (op.vclass) {
    case ON_THRESHOLD: t.onThr = t.nearThreshold = true; return thr;
    case ULP_BELOW: t.ulpBelow = t.nearThreshold = true; return Num<T>::below(thr);
    case ULP_ABOVE: t.ulpAbove = t.nearThreshold = true; return Num<T>::above(thr);
    case LATTICE: return static_cast<T>(static_cast<T>(op.lattice) * Num<T>::unit());
    case REAL_NEAR: return Num<T>::fromReal(op.real);
    default: t.huge = true; return Num<T>::huge(op.huge);
  }
}

void checkReport(
  vf::Ctx & c, const DiagnosticReport & rep, const std::string & name, DiagnosticStatus status,
  const std::string & message, const std::string & value, const std::string & w)
{
  c.check(rep.diagnostics.size() == 1, vf::fmt("%s: report has %zu diagnostics, expected 1", w.c_str(), rep.diagnostics.size()));
  c.check(rep.info.size() == 1, vf::fmt("%s: report has %zu info entries, expected 1", w.c_str(), rep.info.size()));
  c.check(rep.info.begin()->first == name, vf::fmt("%s: info key '%s', expected '%s'", w.c_str(), rep.info.begin()->first.c_str(), name.c_str()));
  const Diagnostic & d = rep.diagnostics.front();
  c.check(d.status == status, vf::fmt("%s: stored status %s, expected %s", w.c_str(), statusName(d.status), statusName(status)));
  c.check(d.message == message, vf::fmt("%s: message '%s', expected '%s'", w.c_str(), d.message.c_str(), message.c_str()));
  c.check(rep.info.begin()->second == value, vf::fmt("%s: info value '%s', expected '%s'", w.c_str(), rep.info.begin()->second.c_str(), value.c_str()));
}

template<typename T, typename Chk>
void runThreshold(vf::Ctx & c, const Spec & sp, Tally & t)
{
  const T u = Num<T>::unit();
  const T target = static_cast<T>(static_cast<T>(sp.a) * u);
  const T eps = static_cast<T>(static_cast<T>(sp.b) * u);
  const T lo = static_cast<T>(static_cast<T>(sp.a - sp.b) * u);   // target - eps, exact
  const T hi = static_cast<T>(static_cast<T>(sp.a + sp.b) * u);   // target + eps, exact
  const double dlo = static_cast<double>(sp.a - sp.b) * static_cast<double>(u);
  const double dhi = static_cast<double>(sp.a + sp.b) * static_cast<double>(u);
  c.check(static_cast<double>(lo) == dlo && static_cast<double>(hi) == dhi &&
    static_cast<double>(target) - static_cast<double>(eps) == dlo && static_cast<double>(target) + static_cast<double>(eps) == dhi,
    "harness: thresholds are not exactly representable");
  Chk chk(sp.name, target, eps);
  int idx = 0;
  for (const OpSpec & op : sp.ops) {
    const std::string w = vf::fmt("op#%d", idx++);
    if (op.timeout) {
      chk.timeout();
      t.timeout = true;
      checkReport(c, chk.getReport(), sp.name, DiagnosticStatus::STALE, sp.name + " timeout.", "", w + " timeout()");
      t.lastVerdict = -1;
      continue;
    }
    OpSpec o = op;
    if (sp.type == GREATER_THAN) {o.upper = false;}
    if (sp.type == LOWER_THAN) {o.upper = true;}
    const T v = materialize<T>(o, lo, hi, t);
    const Expect ex = expectThreshold(sp.type, static_cast<double>(v), dlo, dhi);
    const DiagnosticStatus ret = chk.evaluate(v);
    const std::string ww = vf::fmt("%s evaluate(%s = %a) target %s eps %s", w.c_str(), pr(v).c_str(), static_cast<double>(v),
        pr(target).c_str(), pr(eps).c_str());
    c.check(ret == ex.status, vf::fmt("%s: returned %s, expected %s ('%s')", ww.c_str(), statusName(ret), statusName(ex.status), ex.phrase));
    checkReport(c, chk.getReport(), sp.name, ex.status, sp.name + ex.phrase, pr(v), ww);
    const int verdict = (ex.status == DiagnosticStatus::OK) ? 0 : (ex.phrase[8] == 'l' ? 1 : 2);
    if (t.lastVerdict >= 0 && verdict != t.lastVerdict) {t.verdictChanges++;}
    t.lastVerdict = verdict;
    t.evals++;
  }
}

void runReliability(vf::Ctx & c, const Spec & sp, Tally & t)
{
  const double low = sp.relOverride ? sp.relLow : static_cast<double>(sp.a) / 64;
  const double high = sp.relOverride ? sp.relHigh : static_cast<double>(sp.b) / 64;
  CheckupReliability chk(sp.name, low, high);
  int idx = 0;
  for (const OpSpec & op : sp.ops) {
    const std::string w = vf::fmt("op#%d", idx++);
    double v;
    const double thr = op.upper ? high : low;
    switch (op.vclass) {
      case ON_THRESHOLD: v = thr; t.onThr = t.nearThreshold = true; break;
      case ULP_BELOW: v = std::nextafter(thr, -INFINITY); t.ulpBelow = t.nearThreshold = true; break;
      case ULP_ABOVE: v = std::nextafter(thr, INFINITY); t.ulpAbove = t.nearThreshold = true; break;
      case LATTICE: v = static_cast<double>(op.lattice) / 64; break;
      case REAL_NEAR: v = op.real; break;
      default: v = Num<double>::huge(op.huge); t.huge = true; break;
    }
    Expect ex{DiagnosticStatus::OK, " is high."};
    if (v < low) {ex = Expect{DiagnosticStatus::ERROR, " is too low."};} else if (v < high) {
      ex = Expect{DiagnosticStatus::WARN, " is uncertain."};
    }
    const DiagnosticStatus ret = chk.evaluate(v);
    const std::string ww = vf::fmt("%s reliability evaluate(%.17g = %a) low %.17g high %.17g", w.c_str(), v, v, low, high);
    c.check(ret == ex.status, vf::fmt("%s: returned %s, expected %s", ww.c_str(), statusName(ret), statusName(ex.status)));
    checkReport(c, chk.getReport(), sp.name, ex.status, sp.name + ex.phrase, pr(v), ww);
    const int verdict = static_cast<int>(ex.status);
    if (t.lastVerdict >= 0 && verdict != t.lastVerdict) {t.verdictChanges++;}
    t.lastVerdict = verdict;
    t.evals++;
  }
}

void thresholds(vf::Ctx & c)
{
  Spec sp;
  sp.type = static_cast<int>(c.s.pick("type", {1, 1, 1, 1}));
  const int scalar = (sp.type == RELIABILITY) ? 0 : static_cast<int>(c.s.pick("scalar", {3, 1, 1}));   // double, float, int
  static const char * names[] = {"foo", "speed", "battery_voltage"};
  sp.name = names[c.s.pick("name", {1, 1, 1})];
  double unit, thrLo, thrHi;
  if (sp.type == RELIABILITY) {
    sp.a = c.s.i("low_64th", 0, 64);
    // normally low <= high (equal allowed: the WARN band is empty); "every threshold" also covers a pair given in
    // reversed order, for which the statement still reads: ERROR below low, else WARN below high, else OK
    const bool anyOrder = c.s.flag("thresholds_in_any_order", 1, 5);
    sp.b = c.s.i("high_64th", anyOrder ? 0 : sp.a, 64);
    if (sp.b < sp.a) {c.label("reliability-low>high");}
    unit = 1.0 / 64; thrLo = sp.a * unit; thrHi = sp.b * unit;
    if (sp.a == sp.b) {c.label("reliability-low==high");}
  } else {
    sp.a = c.s.i("target_units", -1024, 1024);
    sp.b = c.s.flag("eps_nonzero", 3, 4) ? c.s.i("eps_units", 1, 256) : 0;
    unit = (scalar == 2) ? 1.0 : 1.0 / 16;
    thrLo = (sp.a - sp.b) * unit; thrHi = (sp.a + sp.b) * unit;
    if (sp.b == 0) {c.label("eps-zero");}
  }
  const int n = static_cast<int>(c.s.len("n_ops", 1, 12));
  for (int k = 0; k < n; ++k) {
    OpSpec op{false, LATTICE, false, 0, 0.0, 0};
    if (sp.type != RELIABILITY && c.s.flag("timeout", 1, 8)) {
      op.timeout = true;
      sp.ops.push_back(op);
      continue;
    }
    op.vclass = static_cast<int>(c.s.pick("vclass", {2, 2, 2, 2, 2, 1}));
    if (op.vclass <= ULP_ABOVE || op.vclass == REAL_NEAR) {op.upper = c.s.flag("upper");}
    if (op.vclass == LATTICE) {
      op.lattice = (sp.type == RELIABILITY) ? c.s.i("v_64th", -16, 80) : c.s.i("v_units", -1536, 1536);
    } else if (op.vclass == REAL_NEAR) {
      op.real = c.s.near("v_real", op.upper ? thrHi : thrLo, 0.0, 15.0, -1e6, 1e6);
    } else if (op.vclass == HUGE_VALUE) {
      op.huge = static_cast<int>(c.s.i("v_huge", 0, 9));
    }
    sp.ops.push_back(op);
  }
  // other report producers share the thread: a position may have been put into some report just before (its printer
  // changes the precision of the stream it is given); the check-up's info value is the value printed on a fresh stream
  const bool positionReportedFirst = c.s.flag("a_wgs84_position_was_reported_first_in_this_thread", 1, 4);
  if (positionReportedFirst) {c.label("other-values-reported-first-in-the-same-thread");}
  if (sp.type == RELIABILITY) {
    // the reliability verdict is made of plain comparisons, so every pair of finite thresholds has an exact expectation:
    // decimal fractions (0.03 / 0.29), per cent (3 / 29), any reals, and the two ends of the double range
    const size_t tc = c.s.pick("reliability_threshold_class", {3, 2, 1, 1, 1});
    if (tc != 0) {
      sp.relOverride = true;
      if (tc == 1 || tc == 2) {
        const int64_t lo = c.s.i("low_100th", 0, 100), hi = c.s.i("high_100th", lo, 100);
        sp.relLow = tc == 1 ? static_cast<double>(lo) / 100 : static_cast<double>(lo);
        sp.relHigh = tc == 1 ? static_cast<double>(hi) / 100 : static_cast<double>(hi);
      } else if (tc == 3) {
        const double x = c.s.r("low_real", -1e6, 1e6), y = c.s.r("high_real", -1e6, 1e6);
        sp.relLow = std::min(x, y); sp.relHigh = std::max(x, y);
      } else {
        sp.relLow = -std::numeric_limits<double>::max(); sp.relHigh = std::numeric_limits<double>::max();
      }
      c.label("reliability-thresholds-not-dyadic");
    }
  }
  c.commit();

  if (positionReportedFirst) {
    romea::core::DiagnosticReport other;
    romea::core::setReportInfo(other, "position", romea::core::makeWGS84Coordinates(0.7853981633974483, 0.05235987755982988));
    romea::core::setReportInfo(other, "ratio", 1.0 / 3.0);
    c.check(other.info.size() == 2, "setReportInfo did not create the two entries");
  }
  Tally t;
  switch (sp.type) {
    case EQUAL_TO:
      c.label("EqualTo");
      if (scalar == 0) {runThreshold<double, CheckupEqualTo<double>>(c, sp, t);} else if (scalar == 1) {
        runThreshold<float, CheckupEqualTo<float>>(c, sp, t);
      } else {runThreshold<int, CheckupEqualTo<int>>(c, sp, t);}
      break;
    case GREATER_THAN:
      c.label("GreaterThan");
      if (scalar == 0) {runThreshold<double, CheckupGreaterThan<double>>(c, sp, t);} else if (scalar == 1) {
        runThreshold<float, CheckupGreaterThan<float>>(c, sp, t);
      } else {runThreshold<int, CheckupGreaterThan<int>>(c, sp, t);}
      break;
    case LOWER_THAN:
      c.label("LowerThan");
      if (scalar == 0) {runThreshold<double, CheckupLowerThan<double>>(c, sp, t);} else if (scalar == 1) {
        runThreshold<float, CheckupLowerThan<float>>(c, sp, t);
      } else {runThreshold<int, CheckupLowerThan<int>>(c, sp, t);}
      break;
    default:
      c.label("Reliability");
      runReliability(c, sp, t);
  }
  if (scalar == 0) {c.label("scalar-double");} else if (scalar == 1) {c.label("scalar-float");} else {c.label("scalar-int");}
  if (t.onThr) {c.label("value-on-threshold");}
  if (t.ulpBelow) {c.label("value-one-ulp-below-threshold");}
  if (t.ulpAbove) {c.label("value-one-ulp-above-threshold");}
  if (t.huge) {c.label("huge/tiny-value");}
  if (t.timeout) {c.label("timeout-in-history");}
  if (t.evals >= 3 && t.verdictChanges > 0) {c.label("history>=3-with-changing-verdicts");}
  c.nontrivial(t.nearThreshold || (t.evals >= 3 && t.verdictChanges > 0));
}

// ------------------------------------------------------------------------------------------------------------------
// status algebra, bounded-exhaustive: all lists of 1..4 statuses (4 + 16 + 64 + 256 leaves)
// ------------------------------------------------------------------------------------------------------------------
void statusTables(vf::Ctx & c)
{
  const int n = static_cast<int>(c.s.i("n", 1, 4));
  int s[4] = {0, 0, 0, 0};
  s[0] = static_cast<int>(c.s.i("s0", 0, 3));
  if (n > 1) {s[1] = static_cast<int>(c.s.i("s1", 0, 3));}
  if (n > 2) {s[2] = static_cast<int>(c.s.i("s2", 0, 3));}
  if (n > 3) {s[3] = static_cast<int>(c.s.i("s3", 0, 3));}
  c.commit();
  c.nontrivial();
  using romea::core::worse;
  // severity order is the order OK < WARN < ERROR < STALE, written out (not taken from the enum values)
  auto sev = [](DiagnosticStatus x) {
      return x == DiagnosticStatus::OK ? 0 : x == DiagnosticStatus::WARN ? 1 : x == DiagnosticStatus::ERROR ? 2 : 3;
    };
  const DiagnosticStatus ordered[4] = {DiagnosticStatus::OK, DiagnosticStatus::WARN, DiagnosticStatus::ERROR, DiagnosticStatus::STALE};
  auto st = [&](int k) {return ordered[s[k]];};
  auto name = [&](int k) {return statusName(st(k));};

  if (n == 1) {
    c.label("singleton");
    c.check(worse(st(0), st(0)) == st(0), vf::fmt("worse(%s,%s) is not idempotent", name(0), name(0)));
  }
  if (n == 2) {
    c.label("pair");
    const DiagnosticStatus r = worse(st(0), st(1));
    const DiagnosticStatus want = sev(st(0)) >= sev(st(1)) ? st(0) : st(1);
    c.check(r == want, vf::fmt("worse(%s,%s) = %s, expected %s", name(0), name(1), statusName(r), statusName(want)));
    c.check(worse(st(1), st(0)) == r, vf::fmt("worse is not commutative on (%s,%s)", name(0), name(1)));
  }
  if (n == 3) {
    c.label("triple");
    const DiagnosticStatus l = worse(worse(st(0), st(1)), st(2)), r = worse(st(0), worse(st(1), st(2)));
    c.check(l == r, vf::fmt("worse is not associative on (%s,%s,%s): %s vs %s", name(0), name(1), name(2), statusName(l), statusName(r)));
    int m = std::max(sev(st(0)), std::max(sev(st(1)), sev(st(2))));
    c.check(l == ordered[m], vf::fmt("worse over (%s,%s,%s) = %s, expected %s", name(0), name(1), name(2), statusName(l), statusName(ordered[m])));
  }
  if (n == 4) {c.label("quadruple");}
  // worseStatus / allOK of the list
  std::list<Diagnostic> diags;
  int m = 0;
  bool all = true;
  for (int k = 0; k < n; ++k) {
    diags.emplace_back(st(k), "m");
    m = std::max(m, sev(st(k)));
    all = all && st(k) == DiagnosticStatus::OK;
  }
  const DiagnosticStatus ws = romea::core::worseStatus(diags);
  c.check(ws == ordered[m], vf::fmt("worseStatus of a %d-list starting (%s,...) = %s, expected %s", n, name(0), statusName(ws), statusName(ordered[m])));
  c.check(romea::core::allOK(diags) == all, vf::fmt("allOK of a %d-list = %d, expected %d", n, !all, all));
}

// ------------------------------------------------------------------------------------------------------------------
// lists of up to 20 diagnostics, report concatenation
// ------------------------------------------------------------------------------------------------------------------
void aggregation(vf::Ctx & c)
{
  static const char * msgs[] = {"", "foo is OK.", "bar is too low.", "baz timeout.", "no data received from qux", "x"};
  static const char * keys[] = {"foo", "bar", "baz", "qux", "speed", "rate", "a", ""};
  const DiagnosticStatus ordered[4] = {DiagnosticStatus::OK, DiagnosticStatus::WARN, DiagnosticStatus::ERROR, DiagnosticStatus::STALE};
  // (a) one list of 1..20 diagnostics
  const int n = static_cast<int>(c.s.len("n_diag", 1, 20));
  const size_t bias = c.s.pick("status_bias", {1, 2});      // 0: uniform, 1: mostly OK (so that allOK is not always false)
  std::vector<int> ls;
  std::vector<int> lm;
  for (int k = 0; k < n; ++k) {
    ls.push_back(bias == 0 ? static_cast<int>(c.s.i("status", 0, 3)) : static_cast<int>(c.s.pick("status_okish", {12, 1, 1, 1})));
    lm.push_back(static_cast<int>(c.s.i("msg", 0, 5)));
  }
  // (b) 1..4 reports appended to an accumulator (empty, or pre-filled)
  struct Rep {std::vector<std::pair<int, int>> diags; std::vector<std::pair<int, int>> info;};
  const bool prefilled = c.s.flag("acc_prefilled");
  const int nrep = static_cast<int>(c.s.i("n_reports", 1, 4));
  std::vector<Rep> reps(nrep + 1);
  for (int r = 0; r <= nrep; ++r) {
    if (r == 0 && !prefilled) {continue;}
    const int nd = static_cast<int>(c.s.len("rep_n_diag", 0, 4));
    for (int k = 0; k < nd; ++k) {
      int s = static_cast<int>(c.s.i("rep_status", 0, 3));
      reps[r].diags.emplace_back(s, static_cast<int>(c.s.i("rep_msg", 0, 5)));
    }
    const int ni = static_cast<int>(c.s.len("rep_n_info", 0, 5));
    for (int k = 0; k < ni; ++k) {reps[r].info.emplace_back(static_cast<int>(c.s.i("key", 0, 7)), static_cast<int>(c.s.i("val", 0, 3)));}
  }
  c.commit();

  // (a)
  {
    std::list<Diagnostic> diags;
    int m = 0;
    bool all = true;
    for (int k = 0; k < n; ++k) {
      diags.emplace_back(ordered[ls[k]], msgs[lm[k]]);
      m = std::max(m, ls[k]);
      all = all && ls[k] == 0;
    }
    const DiagnosticStatus ws = romea::core::worseStatus(diags);
    c.check(ws == ordered[m], vf::fmt("worseStatus of %d diagnostics = %s, expected %s", n, statusName(ws), statusName(ordered[m])));
    const bool ok = romea::core::allOK(diags);
    c.check(ok == all, vf::fmt("allOK of %d diagnostics = %d, expected %d", n, ok, all));
    // inputs untouched
    int k = 0;
    for (const Diagnostic & d : diags) {
      c.check(d.status == ordered[ls[k]] && d.message == msgs[lm[k]], "worseStatus/allOK modified their argument");
      ++k;
    }
    if (all) {c.label("list-all-OK");}
    if (!all && ls[0] == 0) {c.label("list-first-OK-but-not-all");}
    if (n >= 10) {c.label("list>=10");}
    if (m == 3) {c.label("list-worst-STALE");}
  }

  // (b)
  auto build = [&](const Rep & r, int which) {
      DiagnosticReport rep;
      for (const auto & d : r.diags) {rep.diagnostics.emplace_back(ordered[d.first], msgs[d.second]);}
      for (const auto & kv : r.info) {rep.info[keys[kv.first]] = vf::fmt("v%d-r%d", kv.second, which);}
      return rep;
    };
  DiagnosticReport acc = build(reps[0], 0);
  std::vector<std::pair<DiagnosticStatus, std::string>> wantDiags;
  for (const Diagnostic & d : acc.diagnostics) {wantDiags.emplace_back(d.status, d.message);}
  bool collided = false, disjoint = false, emptyAppended = false;
  size_t total = wantDiags.size();
  for (int r = 1; r <= nrep; ++r) {
    const DiagnosticReport rhs = build(reps[r], r);
    const DiagnosticReport rhsCopy = rhs;
    const std::map<std::string, std::string> before = acc.info;
    // the same append with the right operand handed over as a temporary: copying or moving the operand must not change
    // what "appending" means (whatever the merge policy for colliding keys is, it is one policy)
    DiagnosticReport viaTemporary = acc;
    viaTemporary += DiagnosticReport(rhs);
    DiagnosticReport & ret = (acc += rhs);
    {
      bool sameDiag = viaTemporary.diagnostics.size() == acc.diagnostics.size();
      auto i1 = viaTemporary.diagnostics.begin();
      for (auto i2 = acc.diagnostics.begin(); sameDiag && i2 != acc.diagnostics.end(); ++i1, ++i2) {
        sameDiag = i1->status == i2->status && i1->message == i2->message;
      }
      c.check(sameDiag && viaTemporary.info == acc.info,
        vf::fmt("append#%d: appending a temporary copy of the report gives a different result than appending the report itself", r));
    }
    const std::string w = vf::fmt("append#%d", r);
    c.check(&ret == &acc, w + ": operator+= did not return its left operand");
    for (const Diagnostic & d : rhs.diagnostics) {wantDiags.emplace_back(d.status, d.message);}
    c.check(acc.diagnostics.size() == wantDiags.size(),
      vf::fmt("%s: %zu diagnostics after the append, expected %zu", w.c_str(), acc.diagnostics.size(), wantDiags.size()));
    size_t k = 0;
    for (const Diagnostic & d : acc.diagnostics) {
      c.check(d.status == wantDiags[k].first && d.message == wantDiags[k].second,
        vf::fmt("%s: diagnostic %zu is (%s,'%s'), expected (%s,'%s')", w.c_str(), k, statusName(d.status), d.message.c_str(),
        statusName(wantDiags[k].first), wantDiags[k].second.c_str()));
      ++k;
    }
    // info: keys = union; non-colliding values preserved; colliding keys hold either value
    bool anyCollision = false;
    for (const auto & kv : acc.info) {
      const bool inL = before.count(kv.first) > 0, inR = rhs.info.count(kv.first) > 0;
      c.check(inL || inR, vf::fmt("%s: info key '%s' appeared from nowhere", w.c_str(), kv.first.c_str()));
      if (inL && inR) {
        anyCollision = true;
        c.check(kv.second == before.at(kv.first) || kv.second == rhs.info.at(kv.first),
          vf::fmt("%s: colliding info key '%s' holds '%s', neither operand's value", w.c_str(), kv.first.c_str(), kv.second.c_str()));
      } else if (inL) {
        c.check(kv.second == before.at(kv.first), vf::fmt("%s: info '%s' of the left operand changed to '%s'", w.c_str(), kv.first.c_str(), kv.second.c_str()));
      } else {
        c.check(kv.second == rhs.info.at(kv.first), vf::fmt("%s: info '%s' of the right operand arrived as '%s'", w.c_str(), kv.first.c_str(), kv.second.c_str()));
      }
    }
    for (const auto & kv : before) {c.check(acc.info.count(kv.first) > 0, vf::fmt("%s: info key '%s' of the left operand was lost", w.c_str(), kv.first.c_str()));}
    for (const auto & kv : rhs.info) {c.check(acc.info.count(kv.first) > 0, vf::fmt("%s: info key '%s' of the right operand was lost", w.c_str(), kv.first.c_str()));}
    // right operand untouched
    c.check(rhs.info == rhsCopy.info && rhs.diagnostics.size() == rhsCopy.diagnostics.size(), w + ": operator+= modified its right operand");
    if (anyCollision) {collided = true;} else if (!before.empty() && !rhs.info.empty()) {disjoint = true;}
    if (rhs.diagnostics.empty() && rhs.info.empty()) {emptyAppended = true;}
    total = wantDiags.size();
  }
  if (collided) {c.label("reports-overlapping-info-keys");}
  if (disjoint) {c.label("reports-disjoint-info-keys");}
  if (emptyAppended) {c.label("empty-report-appended");}
  if (nrep >= 3) {c.label("chain>=3-reports");}
  if (!acc.diagnostics.empty()) {
    // the aggregated report's worst status is the maximum over everything appended
    int m = 0;
    for (const auto & d : wantDiags) {for (int q = 0; q < 4; ++q) {if (ordered[q] == d.first) {m = std::max(m, q);}}}
    c.check(romea::core::worseStatus(acc.diagnostics) == ordered[m], "worseStatus of the aggregated report is not the maximum of its parts");
  }
  c.nontrivial(n >= 2 && total >= 2);
}

const std::vector<vf::Sub> kSubs = {
  {"thresholds", thresholds,
    "check-up kind EqualTo / GreaterThan / LowerThan (T = double, float, int) or Reliability; target = a*u, epsilon = b*u with integers "
    "|a| <= 1024, 0 <= b <= 256 (b = 0 in a quarter of the cases) and u = 1/16 (u = 1 for int) so that target -+ epsilon are exact; "
    "reliability thresholds low <= high on the 1/64 lattice of [0,1]; histories of 1..12 operations on one object: evaluate(value) with the "
    "value exactly on a threshold, one ulp (one unit for int) below / above it, on the lattice, threshold +- 10^-k (k in [0,15]) or a few ulps, "
    "or huge/tiny (+-1e300, +-max, +-1e-300, +-0, denorm_min, 2^52+1), and Checkup::timeout() (1 in 8). Non-trivial: a value within one ulp of a "
    "threshold, or >= 3 evaluations with a change of verdict."},
  {"status_tables", statusTables,
    "bounded-exhaustive: every list of 1..4 statuses (340 leaves): worse on all 16 pairs (= the more severe, commutative), all 64 triples "
    "(associative, = maximum), idempotent on all 4; worseStatus = maximum and allOK <=> all OK on every list of length <= 4. Every leaf counts."},
  {"aggregation", aggregation,
    "one list of 1..20 diagnostics (statuses uniform or mostly OK, 6 messages) for worseStatus / allOK; an accumulator report (empty or "
    "pre-filled) to which 1..4 reports with 0..4 diagnostics and 0..5 info entries (8 keys, so overlaps and disjoint sets both occur) are "
    "appended with operator+=. Non-trivial: list of >= 2 diagnostics and >= 2 diagnostics aggregated."},
};

}  // namespace

VF_HARNESS(kSubs)
