// C12 - Analytic derivatives and propagated covariances match the maps they describe
//
// Known findings (see /verif/known_findings.json, DESIGN.md section 6):
//   K1  SmartRotation3D derivative matrices carry a spurious constant: the three elementary derivative matrices
//       start as identity and keep one diagonal 1, so
//         dRdX = true + col0(Rz*Ry) * e_x^T ,  dRdY = true + col1(Rz) * row1(Rx) ,  dRdZ = true + e_z * row2(Ry*Rx)
//       (pinned by test/transform/test_smart_rotation.cpp, hence not repairable under "the unedited suite passes").
//   K2  operator*(Affine3d, Pose3D) propagates the covariance with a Jacobian that is not the Jacobian of its own
//       mean map; signature = the formula as written today, re-implemented below on top of K1's matrices.
// The oracle always compares with the truth first (finite differences of the library's own maps); only on a
// mismatch does it compare with truth + the recorded defect. Anything else is a new violation.
#include "vf_main.hpp"

#include <Eigen/Dense>
#include "romea_core_common/transform/SmartRotation3D.hpp"
#include "romea_core_common/geometry/Pose3D.hpp"
#include "romea_core_common/math/EulerAngles.hpp"
#include "romea_core_common/regression/leastsquares/LeastSquares.hpp"

using namespace romea::core;
using Eigen::Matrix3d;
using Eigen::Vector3d;
typedef Eigen::Matrix<double, 6, 6> Matrix6;
typedef Eigen::Matrix<double, 6, 1> Vector6;

namespace {

const double PI = 3.14159265358979323846;

Matrix3d rotX(double a) {Matrix3d R = Matrix3d::Identity(); R(1, 1) = std::cos(a); R(1, 2) = -std::sin(a); R(2, 1) = std::sin(a); R(2, 2) = std::cos(a); return R;}
Matrix3d rotY(double a) {Matrix3d R = Matrix3d::Identity(); R(0, 0) = std::cos(a); R(0, 2) = std::sin(a); R(2, 0) = -std::sin(a); R(2, 2) = std::cos(a); return R;}
Matrix3d rotZ(double a) {Matrix3d R = Matrix3d::Identity(); R(0, 0) = std::cos(a); R(0, 1) = -std::sin(a); R(1, 0) = std::sin(a); R(1, 1) = std::cos(a); return R;}

Vector3d genAngles(vf::Ctx & c, const char * nr, const char * np, const char * ny)
{
  Vector3d a;
  a[0] = c.s.r(nr, -PI, PI);
  a[1] = c.s.r(np, -(PI / 2 - 0.05), PI / 2 - 0.05);
  a[2] = c.s.r(ny, -PI, PI);
  return a;
}

// Richardson-extrapolated central difference of a matrix-valued function of one angle
template<class M, class F>
M richardson(F f, double h)
{
  // concrete types on purpose: 'auto' would keep Eigen expression templates referring to dead temporaries
  M d1 = (f(h) - f(-h)) / (2 * h);
  M d2 = (f(h / 2) - f(-h / 2)) / h;
  M r = (4.0 * d2 - d1) / 3.0;
  return r;
}

// K1: the three derivative matrices as the library computes them today
void k1Matrices(const Vector3d & a, Matrix3d out[3], Matrix3d truth[3])
{
  Matrix3d Rx = rotX(a[0]), Ry = rotY(a[1]), Rz = rotZ(a[2]);
  Matrix3d dRx = Matrix3d::Zero(), dRy = Matrix3d::Zero(), dRz = Matrix3d::Zero();
  dRx(1, 1) = -std::sin(a[0]); dRx(1, 2) = -std::cos(a[0]); dRx(2, 1) = std::cos(a[0]); dRx(2, 2) = -std::sin(a[0]);
  dRy(0, 0) = -std::sin(a[1]); dRy(0, 2) = std::cos(a[1]); dRy(2, 0) = -std::cos(a[1]); dRy(2, 2) = -std::sin(a[1]);
  dRz(0, 0) = -std::sin(a[2]); dRz(0, 1) = -std::cos(a[2]); dRz(1, 0) = std::cos(a[2]); dRz(1, 1) = -std::sin(a[2]);
  truth[0] = Rz * Ry * dRx; truth[1] = Rz * dRy * Rx; truth[2] = dRz * Ry * Rx;
  out[0] = truth[0] + (Rz * Ry).col(0) * Vector3d::UnitX().transpose();
  out[1] = truth[1] + Rz.col(1) * Rx.row(1);
  out[2] = truth[2] + Vector3d::UnitZ() * (Ry * Rx).row(2);
}

void rotationDerivative(vf::Ctx & c)
{
  Vector3d a = genAngles(c, "roll", "pitch", "yaw");
  Vector3d v(c.s.r("vx", -100, 100), c.s.r("vy", -100, 100), c.s.r("vz", -100, 100));
  c.nontrivial(a[0] != 0 && a[1] != 0 && a[2] != 0);
  c.labelIf(std::fabs(a[1]) > PI / 2 - 0.1, "near-gimbal-limit");
  c.commit();

  SmartRotation3D sr(a);
  const Matrix3d reported[3] = {sr.dRdAngleAroundXAxis(), sr.dRdAngleAroundYAxis(), sr.dRdAngleAroundZAxis()};
  Matrix3d k1[3], analytic[3];
  k1Matrices(a, k1, analytic);
  static const char * axis[3] = {"X (roll)", "Y (pitch)", "Z (yaw)"};
  int knownHits = 0;
  for (int k = 0; k < 3; ++k) {
    // the truth: finite differences of the library's own R()
    Matrix3d fd = richardson<Matrix3d>([&](double h) -> Matrix3d {Vector3d b = a; b[k] += h; Matrix3d R = SmartRotation3D(b).R(); return R;}, 1e-3);
    double eTruth = (reported[k] - fd).cwiseAbs().maxCoeff();
    c.maxStat("fd-vs-analytic(harness)", (analytic[k] - fd).cwiseAbs().maxCoeff());
    if (eTruth <= 1e-8) {continue;}
    double eK1 = (reported[k] - (fd + (k1[k] - analytic[k]))).cwiseAbs().maxCoeff();
    if (eK1 <= 1e-8) {knownHits++; continue;}
    c.fail(vf::fmt("dR/d angle around %s differs from the derivative of R() by %.3g and from the recorded K1 signature by %.3g at angles (%.9g,%.9g,%.9g)",
      axis[k], eTruth, eK1, a[0], a[1], a[2]));
  }
  if (knownHits) {c.known("K1", "rotation derivative matrices = true derivative + spurious constant term (exact K1 signature)");}
  // derivative of a rotated vector = reported matrix times the vector (self-consistency of the API)
  Matrix3d dRT = sr.dRTdAngles(v);
  for (int k = 0; k < 3; ++k) {
    double e = (dRT.col(k) - reported[k] * v).cwiseAbs().maxCoeff();
    VF_CHECK(c, e <= 1e-12 * (1 + v.norm()), "dRTdAngles column %d differs from dRdAngle*v by %.3g", k, e);
  }
  // and R() itself is the product Rz*Ry*Rx (pins the map whose derivative is taken)
  double eR = (sr.R() - rotZ(a[2]) * rotY(a[1]) * rotX(a[0])).cwiseAbs().maxCoeff();
  VF_CHECK(c, eR <= 1e-14, "R() differs from Rz*Ry*Rx by %.3g", eR);
  c.check(((sr * v) - sr.R() * v).norm() <= 1e-12 * (1 + v.norm()), "operator*(vector) differs from R()*vector");
}


// history independence of the derivative-carrying rotation helper: one object re-initialised with several angle
// triples (both init overloads), accessors read in a generated order in between; after every init every accessor
// must equal, bit for bit, that of a freshly constructed object (whatever K1 says about the values themselves)
void rotationReuse(vf::Ctx & c)
{
  int n = static_cast<int>(c.s.i("n_inits", 2, 5));
  std::vector<Vector3d> angles;
  std::vector<int> readsBefore, overload;
  bool repeated = false, zeroed = false;
  for (int k = 0; k < n; ++k) {
    // a new triple, or exactly the triple of an earlier initialisation (an "unchanged input" shortcut must still
    // notice what happened in between)
    if (k >= 1 && c.s.flag("repeat_earlier_angles", 1, 3)) {
      angles.push_back(angles[static_cast<size_t>(c.s.i("which_earlier", 0, k - 1))]);
      repeated = true;
    } else {
      angles.push_back(genAngles(c, "roll", "pitch", "yaw"));
    }
    // an axis angle that is exactly zero (an "axis not used" shortcut must still reset what an earlier init left there)
    int zeroMask = static_cast<int>(c.s.pick("exact_zero_axes", {4, 1, 1, 1, 1}));
    if (zeroMask >= 1 && zeroMask <= 3) {angles.back()[zeroMask - 1] = 0.0; zeroed = true;}
    if (zeroMask == 4) {angles.back()[0] = 0.0; angles.back()[1] = 0.0; zeroed = true;}
    overload.push_back(static_cast<int>(c.s.i("init_overload", 0, 1)));
    readsBefore.push_back(static_cast<int>(c.s.i("reads_mask", 0, 31)));   // which accessors are read after this init
  }
  Vector3d v(c.s.r("vx", -100, 100), c.s.r("vy", -100, 100), c.s.r("vz", -100, 100));
  bool startDefault = c.s.flag("start_from_default_object");
  if (repeated) {c.label("same-angles-initialised-again");}
  if (zeroed) {c.label("exactly-zero-angle-on-an-axis");}
  c.nontrivial(n >= 2);
  c.commit();

  SmartRotation3D obj = startDefault ? SmartRotation3D() : SmartRotation3D(angles[0]);
  for (int k = 0; k < n; ++k) {
    if (k > 0 || startDefault) {
      if (overload[k]) {obj.init(angles[k]);} else {obj.init(angles[k][0], angles[k][1], angles[k][2]);}
    }
    SmartRotation3D fresh(angles[k][0], angles[k][1], angles[k][2]);
    int mask = readsBefore[k];
    // generated subset first (so that a lazily filled cache sees different access patterns), then everything
    for (int pass = 0; pass < 2; ++pass) {
      int m = pass == 0 ? mask : 31;
      if (m & 1) {VF_CHECK(c, obj.R() == fresh.R(), "init #%d: R() of the re-initialised object differs from a fresh object's", k);}
      if (m & 2) {VF_CHECK(c, obj.dRdAngleAroundXAxis() == fresh.dRdAngleAroundXAxis(), "init #%d: dRdAngleAroundXAxis() of the re-initialised object differs from a fresh object's (stale state)", k);}
      if (m & 4) {VF_CHECK(c, obj.dRdAngleAroundYAxis() == fresh.dRdAngleAroundYAxis(), "init #%d: dRdAngleAroundYAxis() of the re-initialised object differs from a fresh object's (stale state)", k);}
      if (m & 8) {VF_CHECK(c, obj.dRdAngleAroundZAxis() == fresh.dRdAngleAroundZAxis(), "init #%d: dRdAngleAroundZAxis() of the re-initialised object differs from a fresh object's (stale state)", k);}
      if (m & 16) {
        VF_CHECK(c, obj.dRTdAngles(v) == fresh.dRTdAngles(v), "init #%d: dRTdAngles(v) of the re-initialised object differs from a fresh object's (stale state)", k);
        VF_CHECK(c, (obj * v) == (fresh * v), "init #%d: operator*(v) of the re-initialised object differs from a fresh object's", k);
      }
    }
  }
}

// ---------------------------------------------------------------------------------------------------------
Matrix6 genPsd6(vf::Ctx & c)
{
  uint64_t seed = c.s.seed("cov_seed");
  size_t rk = c.s.pick("cov_rank_class", {3, 1});
  double scale = c.s.rlog("cov_scale", 1e-6, 1e2);
  vf::Rng rng(seed);
  Matrix6 A;
  for (int i = 0; i < 6; ++i) {for (int j = 0; j < 6; ++j) {A(i, j) = rng.gauss();}}
  Eigen::HouseholderQR<Matrix6> qr(A);
  Matrix6 Q = qr.householderQ();
  Vector6 lam;
  for (int i = 0; i < 6; ++i) {lam[i] = scale * std::pow(10.0, -rng.uniform(0, 4));}
  if (rk == 1) {lam[4] = 0; lam[5] = 0; c.label("rank-deficient-covariance");}
  Matrix6 C = Q * lam.asDiagonal() * Q.transpose();
  return 0.5 * (C + C.transpose());
}

Vector6 meanMap(const Eigen::Affine3d & T, const Vector6 & x)
{
  Pose3D p;
  p.position = x.head<3>();
  p.orientation = x.tail<3>();
  p.covariance.setZero();
  Pose3D r = T * p;
  Vector6 y;
  y.head<3>() = r.position;
  y.tail<3>() = r.orientation;
  return y;
}

// K2: the Jacobian exactly as Pose3D.cpp writes it today
Matrix6 k2Jacobian(const Eigen::Affine3d & affine, const Vector3d & orientation)
{
  // the derivative matrices are whatever the library's rotation helper reports (today: K1's values), so that
  // K2 is recognised as "this formula" independently of whether K1 has been repaired
  SmartRotation3D helper(orientation);
  const Matrix3d dR[3] = {helper.dRdAngleAroundXAxis(), helper.dRdAngleAroundYAxis(), helper.dRdAngleAroundZAxis()};
  Matrix3d Rp = rotZ(orientation[2]) * rotY(orientation[1]) * rotX(orientation[0]);
  Matrix3d R = affine.rotation();
  Matrix3d rotation = R * Rp;
  Matrix6 J = Matrix6::Zero();
  J.block<3, 3>(0, 0) = rotation;
  double r21 = rotation(2, 1), r22 = rotation(2, 2);
  double a21 = r22 / (r21 * r21 + r22 * r22), a22 = r21 / (r21 * r21 + r22 * r22);
  for (int k = 0; k < 3; ++k) {J(3, 3 + k) = R.row(2).dot(a21 * dR[k].col(1) - a22 * dR[k].col(2));}
  double r20 = rotation(2, 0);
  double a20 = 1. / (1 - r20 * r20);
  for (int k = 0; k < 3; ++k) {J(4, 3 + k) = R.row(2).dot(a20 * dR[k].col(0));}
  double r10 = R(1, 0), r00 = R(0, 0);
  double a10 = r00 / (r00 * r00 + r10 * r10), a00 = r10 / (r00 * r00 + r10 * r10);
  Eigen::RowVector3d w = -a00 * rotation.row(0) + a10 * rotation.row(1);
  J(5, 3) = w.dot(dR[1].col(0));
  J(5, 4) = w.dot(dR[0].col(0));
  J(5, 5) = w.dot(dR[2].col(0));
  return J;
}

void poseCovariance(vf::Ctx & c)
{
  // attitudes before and after the transform are both drawn inside the domain; the transform is derived
  Vector3d before = genAngles(c, "roll", "pitch", "yaw");
  Vector3d after = genAngles(c, "roll_after", "pitch_after", "yaw_after");
  Vector3d pos(c.s.r("px", -1e3, 1e3), c.s.r("py", -1e3, 1e3), c.s.r("pz", -1e3, 1e3));
  Vector3d tr(c.s.r("tx", -1e3, 1e3), c.s.r("ty", -1e3, 1e3), c.s.r("tz", -1e3, 1e3));
  bool identity = c.s.flag("identity_transform", 1, 10);
  Matrix6 C = genPsd6(c);
  c.nontrivial(!identity);
  if (identity) {c.label("identity-transform");}
  c.commit();

  Matrix3d Rb = rotZ(before[2]) * rotY(before[1]) * rotX(before[0]);
  Matrix3d Ra = rotZ(after[2]) * rotY(after[1]) * rotX(after[0]);
  Eigen::Affine3d T = Eigen::Affine3d::Identity();
  if (!identity) {
    Matrix3d Rt = Ra * Rb.transpose();
    // re-orthonormalise so that affine.rotation() (a polar decomposition) returns it unchanged
    Eigen::JacobiSVD<Matrix3d> svd(Rt, Eigen::ComputeFullU | Eigen::ComputeFullV);
    Rt = svd.matrixU() * svd.matrixV().transpose();
    T.linear() = Rt;
    T.translation() = tr;
  }
  Pose3D p;
  p.position = pos; p.orientation = before; p.covariance = C;
  Pose3D r = T * p;

  // finite-difference Jacobian of the library's own mean map at this pose (angle differences wrapped)
  Vector6 x0;
  x0.head<3>() = pos; x0.tail<3>() = before;
  Matrix6 Jfd;
  for (int k = 0; k < 6; ++k) {
    double h = (k < 3) ? 1e-2 : 1e-3;
    auto f = [&](double s) -> Vector6 {Vector6 x = x0; x[k] += s; return meanMap(T, x);};
    auto diff = [&](double s) -> Vector6 {
        Vector6 d = f(s) - f(-s);
        for (int i = 3; i < 6; ++i) {d[i] = std::remainder(d[i], 2 * PI);}
        Vector6 q = d / (2 * s);
        return q;
      };
    Vector6 col = (4.0 * diff(h / 2) - diff(h)) / 3.0;
    Jfd.col(k) = col;
  }
  Matrix6 ref = Jfd * C * Jfd.transpose();
  std::string problem;
  if (!r.covariance.allFinite()) {
    problem = "propagated covariance is not finite";
  } else {
    // symmetric, positive semi-definite (true for any J C J^T) and equal to J C J^T
    double cn = r.covariance.norm();
    Eigen::SelfAdjointEigenSolver<Matrix6> es(0.5 * (r.covariance + r.covariance.transpose()));
    double eTruth = (r.covariance - ref).norm() / (ref.norm() + 1e-300);
    c.maxStat("pose-covariance-relative-deviation-from-truth", eTruth);
    if ((r.covariance - r.covariance.transpose()).norm() > 1e-12 * (cn + 1e-300)) {
      c.fail("propagated covariance is not symmetric");   // no recorded finding covers this
    } else if (es.eigenvalues().minCoeff() < -1e-10 * std::max(cn, 1e-300)) {
      c.fail(vf::fmt("propagated covariance has eigenvalue %.3g (norm %.3g): not positive semi-definite", es.eigenvalues().minCoeff(), cn));
    } else if (eTruth > 1e-6) {
      problem = vf::fmt("propagated pose covariance differs from J*C*J^T (J = finite-difference Jacobian of the library's own transform) by %.3g relative", eTruth);
    } else {
      c.label("covariance-matches-J*C*J^T");
      return;
    }
  }
  // known finding K2: the value the formula as written today produces (including its 0/0 when the
  // transform's own R(0,0) = R(1,0) = 0), entry by entry
  Matrix6 J2 = k2Jacobian(T, before);
  Matrix6 ref2 = J2 * C * J2.transpose();
  bool matches = true;
  double s2 = 0, e2 = 0;
  for (int i = 0; i < 6; ++i) {
    for (int j = 0; j < 6; ++j) {
      bool f1 = std::isfinite(r.covariance(i, j)), f2 = std::isfinite(ref2(i, j));
      if (f1 != f2) {matches = false;} else if (f1) {s2 += ref2(i, j) * ref2(i, j); e2 += (r.covariance(i, j) - ref2(i, j)) * (r.covariance(i, j) - ref2(i, j));}
    }
  }
  if (matches && std::sqrt(e2) <= 1e-9 * (std::sqrt(s2) + 1e-300)) {
    c.known("K2", "pose covariance = J2*C*J2^T with J2 the Jacobian formula as written today (not the Jacobian of the mean map)");
    return;
  }
  c.fail(problem + vf::fmt("; it does not match the recorded K2 signature either (relative %.3g)", std::sqrt(e2) / (std::sqrt(s2) + 1e-300)));
}

// ---------------------------------------------------------------------------------------------------------
template<typename S>
void lsCovariance(vf::Ctx & c)
{
  // a history of 1..3 problems solved with ONE solver object (fixed estimate size); the covariance reported after
  // each solve must describe that solve (not an earlier one), whatever the observations are
  int p = static_cast<int>(c.s.i("estimate_size", 1, 8));
  int nProblems = static_cast<int>(c.s.i("problems", 1, 3));
  struct Prob {int m; size_t path; double cond, var; bool precond; size_t yClass; uint64_t seed; size_t handOver;};
  std::vector<Prob> probs;
  double condMax = sizeof(S) == 4 ? 30.0 : 1e3;
  bool anyPrecond = false, zeroY = false, anyHandOver = false, tinyVar = false, zeroVar = false;
  for (int q = 0; q < nProblems; ++q) {
    Prob pr;
    pr.m = static_cast<int>(c.s.len("data_size", p, 300));
    if (pr.m < p) {pr.m = p;}
    pr.path = c.s.pick("path", {1, 1, 1});  // SVD, Cholesky, weighted
    pr.cond = c.s.rlog("cond_J", 1.0, condMax);
    {
      // ordinary / tiny (sensor noise far below the unit, e.g. nanoseconds in seconds) / exactly zero (perfect data)
      size_t vk = c.s.pick("variance_class", {5, 2, 1});
      pr.var = vk == 0 ? c.s.rlog("data_variance", 1e-4, 1e2) : (vk == 1 ? c.s.rlog("data_variance", 1e-24, 1e-4) : 0.0);
      tinyVar = tinyVar || vk == 1;
      zeroVar = zeroVar || vk == 2;
    }
    pr.precond = c.s.flag("diagonal_preconditioner", 3, 4);
    pr.yClass = c.s.pick("observations", {4, 1, 1});  // random, all zero (J^T Y = 0), exactly consistent Y = J x
    pr.seed = c.s.seed("content_seed");
    pr.handOver = c.s.pick("covariance_read_from", {3, 1, 1});   // the solver itself / a copy of it / a solver it was moved into
    anyHandOver = anyHandOver || pr.handOver != 0;
    anyPrecond = anyPrecond || pr.precond;
    zeroY = zeroY || pr.yClass == 1;
    probs.push_back(pr);
  }
  c.nontrivial(anyPrecond);
  if (anyPrecond) {c.label("non-identity-preconditioner");}
  if (zeroY) {c.label("zero-observations(J^T Y = 0)");}
  if (tinyVar) {c.label("data-variance-below-1e-4");}
  if (zeroVar) {c.label("data-variance-exactly-zero");}
  if (nProblems > 1) {c.label("solver-reused");}
  if (anyHandOver) {c.label("covariance-read-after-copy-or-move");}
  static const char * pn[] = {"svd-path", "cholesky-path", "weighted-path"};
  for (const auto & pr : probs) {c.label(pn[pr.path]);}
  c.commit();

  using Mat = Eigen::Matrix<S, -1, -1>;
  using Vec = Eigen::Matrix<S, -1, 1>;
  LeastSquares<S> ls(static_cast<size_t>(p));
  int idx = 0;
  for (const Prob & pr : probs) {
    const int m = pr.m;
    vf::Rng rng(pr.seed);
    Eigen::MatrixXd A = Eigen::MatrixXd::NullaryExpr(m, p, [&]() {return rng.gauss();});
    Eigen::HouseholderQR<Eigen::MatrixXd> qa(A);
    Eigen::MatrixXd U = qa.householderQ() * Eigen::MatrixXd::Identity(m, p);
    Eigen::MatrixXd B = Eigen::MatrixXd::NullaryExpr(p, p, [&]() {return rng.gauss();});
    Eigen::HouseholderQR<Eigen::MatrixXd> qb(B);
    Eigen::MatrixXd V = qb.householderQ();
    Eigen::VectorXd sv(p);
    for (int i = 0; i < p; ++i) {sv[i] = (p == 1) ? 1.0 : std::pow(pr.cond, -static_cast<double>(i) / (p - 1));}
    Eigen::MatrixXd J = U * sv.asDiagonal() * V.transpose();
    Eigen::VectorXd w(m), diagA(p), bc(p), xs(p);
    for (int i = 0; i < m; ++i) {w[i] = (pr.path == 2) ? rng.uniform(0.5, 2.0) : 1.0;}
    for (int i = 0; i < p; ++i) {diagA[i] = pr.precond ? std::pow(10.0, rng.uniform(-1, 1)) : 1.0; bc[i] = pr.precond ? rng.uniform(-1, 1) : 0.0; xs[i] = rng.gauss();}

    ls.setDataSize(static_cast<size_t>(m));
    ls.getJ().topRows(m) = J.template cast<S>();
    Vec Y(m);
    if (pr.yClass == 1) {Y.setZero();} else if (pr.yClass == 2) {Y = (J.template cast<S>() * xs.template cast<S>());} else {
      Y = Vec::NullaryExpr(m, [&]() {return static_cast<S>(rng.gauss());});
    }
    ls.getY().head(m) = Y;
    ls.getW().head(m) = w.template cast<S>();
    if (pr.precond) {ls.setPreconditionner(Mat(diagA.template cast<S>().asDiagonal()), Vec(bc.template cast<S>()));} else {
      ls.setPreconditionner(Mat(Mat::Identity(p, p)), Vec(Vec::Zero(p)));
    }
    if (pr.path == 0) {ls.estimateUsingSVD();} else if (pr.path == 1) {ls.estimateUsingCholeskyDecomposition();} else {ls.weightedEstimate();}
    Mat cov;
    if (pr.handOver == 0) {
      cov = ls.computeEstimateCovariance(static_cast<S>(pr.var));
      // asking again (e.g. with another variance) must not have been changed by the first question
      Mat again = ls.computeEstimateCovariance(static_cast<S>(pr.var));
      VF_CHECK(c, again.rows() == cov.rows() && (again.array() == cov.array()).all(), "solve #%d: computeEstimateCovariance() returns a different matrix when asked a second time (relative change %.3g)",
        idx, static_cast<double>((again - cov).norm() / cov.norm()));
    } else if (pr.handOver == 1) {
      LeastSquares<S> copy(ls);                         // value semantics: a copy of a solved solver knows its covariance
      cov = copy.computeEstimateCovariance(static_cast<S>(pr.var));
    } else {
      LeastSquares<S> other(std::move(ls));             // e.g. push_back into a vector, return by value
      cov = other.computeEstimateCovariance(static_cast<S>(pr.var));
      ls = std::move(other);                            // and back, so that the history continues on the same state
    }

    // reference: var * A (Jw^T Jw)^-1 A in double, from the S-typed inputs
    Eigen::MatrixXd Jw = J.template cast<S>().template cast<double>();
    Eigen::VectorXd wS = w.template cast<S>().template cast<double>();
    for (int i = 0; i < m; ++i) {Jw.row(i) *= wS[i];}
    Eigen::MatrixXd N = Jw.transpose() * Jw;
    Eigen::MatrixXd Ninv = N.ldlt().solve(Eigen::MatrixXd::Identity(p, p));
    Eigen::MatrixXd Ad = diagA.template cast<S>().template cast<double>().asDiagonal();
    Eigen::MatrixXd ref = static_cast<double>(static_cast<S>(pr.var)) * Ad * Ninv * Ad;
    double eps = std::numeric_limits<S>::epsilon();
    double condN = pr.cond * pr.cond * (pr.path == 2 ? 16 : 1);
    double tol = 64 * eps * condN * p + 1e-12;
    if (pr.var == 0.0) {
      VF_CHECK(c, (cov.array() == S(0)).all(), "solve #%d of %d on one solver: data variance 0, but the estimate covariance is not the zero matrix (largest entry %.3g)",
        idx, nProblems, static_cast<double>(cov.cwiseAbs().maxCoeff()));
      idx++;
      continue;
    }
    double err = (cov.template cast<double>() - ref).norm() / ref.norm();
    c.maxStat(sizeof(S) == 4 ? "ls-covariance-relative-error/tol(float)" : "ls-covariance-relative-error/tol(double)", err / tol);
    VF_CHECK(c, cov.allFinite() && err <= tol, "solve #%d of %d on one solver: estimate covariance differs from variance * A (J^T J)^-1 A by %.3g relative (tol %.3g; p=%d m=%d cond(J)=%.3g path=%s precond=%d observations=%s)",
      idx, nProblems, err, tol, p, m, pr.cond, pn[pr.path], pr.precond, pr.yClass == 1 ? "all zero" : (pr.yClass == 2 ? "exactly consistent" : "random"));
    idx++;
  }
}

const std::vector<vf::Sub> kSubs = {
  {"rotation_derivative", rotationDerivative,
    "roll, yaw boundary-biased in [-pi,pi], |pitch| <= pi/2-0.05, vector in [-100,100]^3; reported dR/d(angle) compared with "
    "Richardson-extrapolated central differences (h=1e-3) of the library's own R(), tolerance 1e-8; on mismatch compared with "
    "truth + the recorded K1 term. Non-trivial: all three angles non-zero."},
  {"rotation_reuse", rotationReuse,
    "one SmartRotation3D object re-initialised 2..5 times (both init overloads, optionally starting from a default-constructed "
    "object) with a generated subset of accessors read after each init; every accessor must be bit-equal to a fresh object's. "
    "Non-trivial: every case (>= 2 initialisations)."},
  {"pose_covariance", poseCovariance,
    "pose attitude and attitude after the transform both drawn with |pitch| <= pi/2-0.05 (the rigid transform is derived from them; "
    "1 in 10 is the identity), positions/translations in +-1e3, covariance Q diag(lambda) Q^T with 4 decades of spread, 1 in 4 rank 4; "
    "reported covariance compared with J C J^T, J = finite-difference Jacobian of the library's own operator*(Affine3d, Pose3D) "
    "(relative 1e-6); on mismatch compared with the recorded K2 formula (relative 1e-9). Non-trivial: non-identity transform."},
  {"ls_covariance_double", lsCovariance<double>,
    "histories of 1..3 problems on ONE solver (estimate size 1..8, data size up to 300 each, J = U diag(s) V^T with cond(J) <= 1e3 "
    "(30 for float), SVD / Cholesky / weighted path, diagonal preconditioner with entries 0.1..10 and an offset or none, observations "
    "random / all zero / exactly consistent); after every solve the covariance is compared with variance * A (J^T J)^-1 A computed "
    "in double for THAT problem. Non-trivial: a non-identity preconditioner in the history."},
  {"ls_covariance_float", lsCovariance<float>,
    "as ls_covariance_double with float scalars"},
};

}  // namespace

VF_HARNESS(kSubs)
