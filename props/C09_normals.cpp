// C09 - Estimated surface normals are unit, sensor-facing and orthogonal to the surface
//
// One case = one cloud (generated once in double, dimension 2 or 3) + k + a rotation about the origin. The cloud is
// converted to the four point types of its dimension (float/double x Cartesian/homogeneous, homogeneous coordinate 1,
// normal sets pre-filled with PointType::Zero() exactly as FindRigidTransformationByICP.cpp:124 does). For every
// scalar type the harness computes, in long double over the scalar-typed coordinates, the brute-force k nearest
// neighbours of every point (the point itself included, as the library's kd-tree query returns it), their covariance C
// and its eigen-decomposition (cyclic Jacobi). All six compute() overloads are then run and every output is checked.
//
// Notation: eps = machine epsilon of the scalar type (u = eps/2), tr = trace C, l0 <= l1 (<= l2) eigenvalues of C,
// pmax = largest norm of a neighbour, k = neighbourhood size.
//
// Error model of the library (two-pass covariance in the scalar type + Eigen's iterative self-adjoint solver):
//   * the mean is a sequential sum: |dm| <= sqrt(D) k u pmax. With the *computed* mean the centred sum of outer products
//     equals C + dm dm^T exactly (the cross terms vanish), i.e. a perturbation <= D (k u pmax)^2 <= (k eps pmax)^2;
//   * differences x_i - mean are rounded relative to their own size, products and the k-term sums add (k+4) u relative to
//     sum |a_i||b_i|/k, a matrix whose 2-norm is <= tr: perturbation <= (k+4) u tr <= 17 eps tr for k <= 30;
//   * the eigen solver is backward stable: c u ||C|| with c ~ 10.
//   dC := 64 eps tr + 4 (k eps pmax)^2 bounds twice the sum of the three (worst case ~ 25 eps tr + (k eps pmax)^2).
// Consequences used as tolerances (all are upper bounds that do not depend on the implementation):
//   Rayleigh quotient   n^T C n - l0 <= dC                        (valid whatever the eigen-gap: Weyl)
//   curvature           |curv - l0/tr| <= 2 dC/tr
//   direction           chord(n, +-v0) <= 2 dC/(l1-l0)            (Davis-Kahan) - only where (l1-l0)/tr > 1e-6 (quantifier)
//   planar/linear       C in the basis (T, n0) is [[A,b],[b^T,s]] with s = n0^T C n0 (off-plane variance of the typed
//                       points, 0 for axis-aligned planes) and |b_j| <= sqrt(lambda_j(A) s); for s <= lmin(A)/16 the exact
//                       minor eigenvector deviates from n0 by tan <= 1.07 sqrt((D-1) s/lmin(A)); tolerance
//                       2 sqrt((D-1) s/lmin(A)) + 3 dC/lmin(A); curvature <= s/tr + 2 dC/tr
//   equivariance        the rotated cloud is rounded to the scalar type: each point moves by <= u |p|, the covariance of the
//                       same neighbours by <= 4 e sqrt(tr) + 4 e^2, e = u pmax; Delta := twice that; tolerance on the
//                       normals 2 (2 dC + Delta)/(l1-l0), on the curvature 4 (dC + Delta)/tr. Signed-permutation rotations
//                       are exact (Delta = 0).
// A neighbourhood is *ambiguous* when the gap between the k-th and the (k+1)-th squared distance is within 64 eps
// relative (the kd-tree's own rounding, see C08) - for the equivariance relation additionally within the displacement
// the rounding of the rotated cloud can cause; such points are counted and skipped, not failed.
#include "vf_main.hpp"

#include <algorithm>
#include <Eigen/Core>
#include <Eigen/Eigenvalues>

#include "romea_core_common/pointset/algorithms/NormalAndCurvatureEstimation.hpp"

namespace {

typedef long double LD;
using romea::core::KdTree;
using romea::core::NormalAndCurvatureEstimation;
using romea::core::NormalSet;
using romea::core::PointSet;

// | |n| - 1 | <= 32 eps: Eigen does not renormalise the eigenvectors, they are a product of a Householder step and of
// ~4..10 Givens rotations (each ~3u off orthonormality); measured worst 4.8 eps (float) / 4.1 eps (double) - DESIGN.md's
// estimate of 4 eps is exceeded by the unchanged library on ~1 point in 10^5 and would be a false alarm.
const LD kUnitTolEps = 32;
// curvature in [-32 eps, 1/D + 32 eps]: the computed covariance is symmetric but indefinite by up to (k+4)u tr <= 17 eps tr and
// the solver adds ~5 eps; measured worst -2.1 eps. (DESIGN.md: 8 eps from a measured -1.7 eps; widened to the derived bound.)
const LD kCurvRangeTolEps = 32;

// ------------------------------------------------------------------------------------------------
// point types
// ------------------------------------------------------------------------------------------------
template<class S, int DIM> struct HomOf;
template<class S> struct HomOf<S, 2> {typedef romea::core::HomogeneousCoordinates2<S> type;};
template<class S> struct HomOf<S, 3> {typedef romea::core::HomogeneousCoordinates3<S> type;};

template<class PT> struct Name;
template<> struct Name<Eigen::Vector2f> {static const char * get() {return "Vector2f";}};
template<> struct Name<Eigen::Vector2d> {static const char * get() {return "Vector2d";}};
template<> struct Name<Eigen::Vector3f> {static const char * get() {return "Vector3f";}};
template<> struct Name<Eigen::Vector3d> {static const char * get() {return "Vector3d";}};
template<> struct Name<romea::core::HomogeneousCoordinates2f> {static const char * get() {return "HomogeneousCoordinates2f";}};
template<> struct Name<romea::core::HomogeneousCoordinates2d> {static const char * get() {return "HomogeneousCoordinates2d";}};
template<> struct Name<romea::core::HomogeneousCoordinates3f> {static const char * get() {return "HomogeneousCoordinates3f";}};
template<> struct Name<romea::core::HomogeneousCoordinates3d> {static const char * get() {return "HomogeneousCoordinates3d";}};

template<class S> const char * sel(const char * f, const char * d);
template<> const char * sel<float>(const char * f, const char *) {return f;}
template<> const char * sel<double>(const char *, const char * d) {return d;}

template<class PT>
PT makePoint(const typename PT::Scalar * x, int dim)
{
  PT p;
  const int size = static_cast<int>(p.size());
  for (int d = 0; d < size; ++d) {p[d] = d < dim ? x[d] : typename PT::Scalar(1);}
  return p;
}

// ------------------------------------------------------------------------------------------------
// small long-double linear algebra
// ------------------------------------------------------------------------------------------------
template<int D>
void jacobiEig(const LD A[D][D], LD lam[D], LD V[D][D])
{
  LD a[D][D];
  for (int i = 0; i < D; ++i) {
    for (int j = 0; j < D; ++j) {a[i][j] = A[i][j]; V[i][j] = (i == j) ? 1.0L : 0.0L;}
  }
  for (int sweep = 0; sweep < 60; ++sweep) {
    LD off = 0, dg = 0;
    for (int i = 0; i < D; ++i) {
      dg += a[i][i] * a[i][i];
      for (int j = i + 1; j < D; ++j) {off += a[i][j] * a[i][j];}
    }
    if (off == 0 || off <= 1e-44L * dg) {break;}
    for (int p = 0; p < D; ++p) {
      for (int q = p + 1; q < D; ++q) {
        if (a[p][q] == 0) {continue;}
        LD theta = (a[q][q] - a[p][p]) / (2 * a[p][q]);
        LD t = (theta >= 0 ? 1.0L : -1.0L) / (fabsl(theta) + sqrtl(theta * theta + 1));
        LD cs = 1 / sqrtl(t * t + 1), sn = t * cs;
        for (int r = 0; r < D; ++r) {   // columns p,q of a
          LD arp = a[r][p], arq = a[r][q];
          a[r][p] = cs * arp - sn * arq; a[r][q] = sn * arp + cs * arq;
        }
        for (int r = 0; r < D; ++r) {   // rows p,q of a
          LD apr = a[p][r], aqr = a[q][r];
          a[p][r] = cs * apr - sn * aqr; a[q][r] = sn * apr + cs * aqr;
        }
        for (int r = 0; r < D; ++r) {
          LD vrp = V[r][p], vrq = V[r][q];
          V[r][p] = cs * vrp - sn * vrq; V[r][q] = sn * vrp + cs * vrq;
        }
      }
    }
  }
  int ord[D];
  for (int i = 0; i < D; ++i) {ord[i] = i;}
  std::sort(ord, ord + D, [&](int x, int y) {return a[x][x] < a[y][y];});
  LD Vs[D][D];
  for (int j = 0; j < D; ++j) {
    lam[j] = a[ord[j]][ord[j]];
    for (int i = 0; i < D; ++i) {Vs[i][j] = V[i][ord[j]];}
  }
  for (int i = 0; i < D; ++i) {for (int j = 0; j < D; ++j) {V[i][j] = Vs[i][j];}}
}

struct Rot {LD m[3][3]; bool exact;};

// ------------------------------------------------------------------------------------------------
// generation (double)
// ------------------------------------------------------------------------------------------------
enum Kind { PLANAR, PIECEWISE, CURVED };

struct Cloud
{
  int dim = 2;
  size_t n = 0, k = 3;
  int kind = PLANAR;
  bool noisy = false;
  std::vector<double> x;      // n*dim
  std::vector<int> piece;     // flat piece every point lies on (noise-free planar / piecewise planar), else -1
  std::vector<std::array<double, 3>> pieceNormal;
};

void randomFrame(vf::Rng & rng, int D, double e[3][3])
{
  // orthonormal frame (rows), Gram-Schmidt on Gaussian vectors
  for (int r = 0; r < D; ++r) {
    for (;; ) {
      double v[3] = {0, 0, 0};
      for (int d = 0; d < D; ++d) {v[d] = rng.gauss();}
      for (int q = 0; q < r; ++q) {
        double dp = 0;
        for (int d = 0; d < D; ++d) {dp += v[d] * e[q][d];}
        for (int d = 0; d < D; ++d) {v[d] -= dp * e[q][d];}
      }
      double nn = 0;
      for (int d = 0; d < D; ++d) {nn += v[d] * v[d];}
      nn = std::sqrt(nn);
      if (nn < 1e-3) {continue;}
      for (int d = 0; d < 3; ++d) {e[r][d] = d < D ? v[d] / nn : 0.0;}
      break;
    }
  }
}

Cloud genCloud(vf::Ctx & c, int64_t nLo, int64_t nHi, bool grow)
{
  Cloud cl;
  cl.dim = c.s.flag("dim3") ? 3 : 2;
  const int D = cl.dim;
  cl.k = static_cast<size_t>(c.s.i("k", 3, 30));
  int64_t lo = std::max<int64_t>(nLo, static_cast<int64_t>(cl.k) + 1);
  cl.n = static_cast<size_t>(grow ? c.s.len("n", lo, nHi) : c.s.i("n", lo, nHi));
  cl.kind = static_cast<int>(c.s.pick("surface", {3, 2, 3}));
  cl.noisy = c.s.pick("noise_class", {2, 1}) == 1;
  const double L = c.s.rlog("extent", 0.1, 5.0);
  const double noiseRel = cl.noisy ? c.s.rlog("noise_rel", 1e-6, 3e-2) : 0.0;
  const double scale = (c.s.pick("scale_class", {3, 1}) == 1) ? c.s.rlog("scale", 0.05, 50.0) : 1.0;
  const size_t n = cl.n;
  cl.x.assign(n * D, 0.0);
  cl.piece.assign(n, -1);
  double noiseLen = L;

  if (cl.kind == PLANAR) {
    bool axis = c.s.flag("axis_aligned_plane", 1, 4);
    double n0[3] = {0, 0, 0}, t[2][3] = {{0, 0, 0}, {0, 0, 0}};
    double off;
    if (axis) {
      // exactly representable plane: coordinate a == +-off for every point (after the common scale factor as well)
      int a = static_cast<int>(c.s.i("axis", 0, D - 1));
      bool neg = c.s.flag("axis_negative");
      off = c.s.dyadic("offset_dyadic", 1.0, 5.0, 4);
      n0[a] = neg ? -1.0 : 1.0;
      t[0][(a + 1) % D] = 1.0;
      if (D == 3) {t[1][(a + 2) % D] = 1.0;}
      c.label("planar:axis-aligned(exact)");
    } else {
      off = c.s.uni("offset", 1.0, 5.0);
    }
    // 3D: optionally a thin strip (second in-plane extent 1e-8..1e-1 of the first): nearly collinear neighbourhoods, the two
    // smallest eigenvalues approach each other - exercises the property's eigen-gap filter (direction not checked there)
    double strip = 1.0;
    if (D == 3 && c.s.pick("strip_class", {3, 1}) == 1) {
      strip = c.s.rlog("strip_ratio", 1e-8, 1e-1);
      c.label("planar:thin-strip(small eigen-gap)");
    }
    vf::Rng rng(c.s.seed("cloud_seed"));
    if (!axis) {
      double e[3][3];
      randomFrame(rng, D, e);
      for (int d = 0; d < 3; ++d) {n0[d] = e[0][d]; t[0][d] = e[1][d]; t[1][d] = (D == 3) ? e[2][d] : 0.0;}
    }
    // in-plane position of the patch centre: up to one extent off the foot of the perpendicular
    double ctr[2] = {L * rng.uniform(-1.0, 1.0), L * rng.uniform(-1.0, 1.0)};
    for (size_t i = 0; i < n; ++i) {
      double ab[2] = {ctr[0] + L * rng.uniform(-1.0, 1.0), ctr[1] + strip * L * rng.uniform(-1.0, 1.0)};
      for (int d = 0; d < D; ++d) {
        double v = off * n0[d];
        for (int r = 0; r < D - 1; ++r) {v += ab[r] * t[r][d];}
        cl.x[i * D + d] = v;
      }
      cl.piece[i] = 0;
    }
    cl.pieceNormal.push_back({n0[0], n0[1], n0[2]});
    // noise (drawn from the same stream, after the points)
    if (cl.noisy) {
      for (size_t i = 0; i < n * D; ++i) {
        cl.x[i] += noiseRel * noiseLen * std::max(-3.0, std::min(3.0, rng.gauss()));
      }
    }
  } else if (cl.kind == PIECEWISE) {
    // corner of a box: faces e_i . x = d_i (|d_i| in [1,5]: no face plane through the sensor), extending from the corner
    int nf = (D == 3) ? static_cast<int>(c.s.i("n_faces", 2, 3)) : 2;
    double dcorner[3];
    for (int d = 0; d < D; ++d) {
      dcorner[d] = c.s.uni("corner_offset", 1.0, 5.0) * (c.s.flag("corner_negative") ? -1.0 : 1.0);
    }
    bool away[3];
    for (int d = 0; d < D; ++d) {away[d] = c.s.flag("face_extends_away");}
    vf::Rng rng(c.s.seed("cloud_seed"));
    double e[3][3];
    randomFrame(rng, D, e);
    for (int f = 0; f < nf; ++f) {cl.pieceNormal.push_back({e[f][0], e[f][1], e[f][2]});}
    for (size_t i = 0; i < n; ++i) {
      int f = static_cast<int>(rng.below(nf));
      double co[3];
      for (int d = 0; d < D; ++d) {
        double sgn = (dcorner[d] > 0) == away[d] ? 1.0 : -1.0;
        co[d] = (d == f) ? dcorner[d] : dcorner[d] + sgn * L * rng.u();
      }
      for (int d = 0; d < D; ++d) {
        double v = 0;
        for (int r = 0; r < D; ++r) {v += co[r] * e[r][d];}
        cl.x[i * D + d] = v;
      }
      cl.piece[i] = f;
    }
    if (cl.noisy) {
      for (size_t i = 0; i < n * D; ++i) {
        cl.x[i] += noiseRel * noiseLen * std::max(-3.0, std::min(3.0, rng.gauss()));
      }
    }
  } else {
    // circle arc (2D), sphere cap or cylinder patch (3D); sensor outside (convex side seen) or inside (concave side seen)
    bool inside = c.s.flag("sensor_inside");
    bool cyl = (D == 3) && c.s.flag("cylinder");
    double rho = inside ? c.s.uni("radius_inside", 2.0, 6.0) : c.s.rlog("radius", 0.2, 5.0);
    double dist = inside ? c.s.uni("centre_dist_inside", 0.0, rho - 1.0) : rho + c.s.uni("offset", 1.0, 5.0);
    double span = c.s.uni("half_angle", 0.2, inside ? 3.1 : 1.2);
    vf::Rng rng(c.s.seed("cloud_seed"));
    double e[3][3];
    randomFrame(rng, D, e);
    // centre on e0 at distance dist; the patch is centred on the direction -e0 (towards the sensor) when outside
    double towards = inside ? 1.0 : -1.0;
    noiseLen = std::min(L, rho * span);
    for (size_t i = 0; i < n; ++i) {
      double co[3] = {0, 0, 0};
      if (D == 2) {
        double a = span * rng.uniform(-1.0, 1.0);
        co[0] = dist + towards * rho * std::cos(a); co[1] = rho * std::sin(a);
      } else if (cyl) {
        double a = span * rng.uniform(-1.0, 1.0);
        co[0] = dist + towards * rho * std::cos(a); co[1] = rho * std::sin(a); co[2] = L * rng.uniform(-1.0, 1.0);
      } else {
        // cap of half-angle span around the pole, area-uniform
        double cz = 1.0 - (1.0 - std::cos(span)) * rng.u();
        double sz = std::sqrt(std::max(0.0, 1.0 - cz * cz));
        double ph = rng.uniform(-3.14159265358979, 3.14159265358979);
        co[0] = dist + towards * rho * cz; co[1] = rho * sz * std::cos(ph); co[2] = rho * sz * std::sin(ph);
      }
      for (int d = 0; d < D; ++d) {
        double v = 0;
        for (int r = 0; r < D; ++r) {v += co[r] * e[r][d];}
        cl.x[i * D + d] = v;
      }
    }
    if (cl.noisy) {
      for (size_t i = 0; i < n * D; ++i) {
        cl.x[i] += noiseRel * noiseLen * std::max(-3.0, std::min(3.0, rng.gauss()));
      }
    }
    c.label(D == 2 ? "curved:circle" : (cyl ? "curved:cylinder" : "curved:sphere"));
    c.labelIf(inside, "curved:sensor-inside(concave)");
  }
  if (cl.noisy) {std::fill(cl.piece.begin(), cl.piece.end(), -1);}
  if (scale != 1.0) {
    for (auto & v : cl.x) {v *= scale;}
    c.label("scaled-cloud");
  }
  const char * kn[] = {"surface:planar/linear", "surface:piecewise-planar", "surface:curved"};
  c.label(kn[cl.kind]);
  c.label(D == 2 ? "2D" : "3D");
  c.label(cl.noisy ? "noisy" : "noise-free");
  c.labelIf(cl.k <= 5, "k<=5");
  c.labelIf(cl.k >= 20, "k>=20");
  c.labelIf(cl.n <= 2 * cl.k, "n<=2k");
  return cl;
}

Rot genRotation(vf::Ctx & c, int D)
{
  Rot R;
  for (int i = 0; i < 3; ++i) {for (int j = 0; j < 3; ++j) {R.m[i][j] = (i == j) ? 1.0L : 0.0L;}}
  size_t kind = c.s.pick("rotation_kind", {1, 2});
  R.exact = (kind == 0);
  if (kind == 0) {
    c.label("rotation:signed-permutation(exact)");
    if (D == 2) {
      int q = static_cast<int>(c.s.i("quarter_turns", 0, 3));
      const LD cs[4] = {1, 0, -1, 0}, sn[4] = {0, 1, 0, -1};
      R.m[0][0] = cs[q]; R.m[0][1] = -sn[q]; R.m[1][0] = sn[q]; R.m[1][1] = cs[q];
    } else {
      int want = static_cast<int>(c.s.i("cube_rotation", 0, 23));
      int perm[6][3] = {{0, 1, 2}, {0, 2, 1}, {1, 0, 2}, {1, 2, 0}, {2, 0, 1}, {2, 1, 0}};
      int parity[6] = {1, -1, -1, 1, 1, -1};
      int seen = 0;
      for (int p = 0; p < 6; ++p) {
        for (int sg = 0; sg < 8; ++sg) {
          int s0 = (sg & 1) ? -1 : 1, s1 = (sg & 2) ? -1 : 1, s2 = (sg & 4) ? -1 : 1;
          if (parity[p] * s0 * s1 * s2 != 1) {continue;}
          if (seen++ == want) {
            int s[3] = {s0, s1, s2};
            for (int i = 0; i < 3; ++i) {for (int j = 0; j < 3; ++j) {R.m[i][j] = (perm[p][i] == j) ? s[i] : 0;}}
          }
        }
      }
    }
  } else {
    c.label("rotation:random");
    LD ang = c.s.uni("rotation_angle", -3.14159265358979, 3.14159265358979);
    if (D == 2) {
      R.m[0][0] = cosl(ang); R.m[0][1] = -sinl(ang); R.m[1][0] = sinl(ang); R.m[1][1] = cosl(ang);
    } else {
      LD ax[3] = {c.s.uni("rotation_axis", -1.0, 1.0), c.s.uni("rotation_axis", -1.0, 1.0), c.s.uni("rotation_axis", -1.0, 1.0)};
      LD nn = sqrtl(ax[0] * ax[0] + ax[1] * ax[1] + ax[2] * ax[2]);
      if (nn < 1e-3L) {ax[0] = 0; ax[1] = 0; ax[2] = 1; nn = 1;}
      for (int d = 0; d < 3; ++d) {ax[d] /= nn;}
      LD cs = cosl(ang), sn = sinl(ang), K[3][3] = {{0, -ax[2], ax[1]}, {ax[2], 0, -ax[0]}, {-ax[1], ax[0], 0}};
      for (int i = 0; i < 3; ++i) {
        for (int j = 0; j < 3; ++j) {
          R.m[i][j] = cs * (i == j ? 1.0L : 0.0L) + sn * K[i][j] + (1 - cs) * ax[i] * ax[j];
        }
      }
    }
  }
  return R;
}

// ------------------------------------------------------------------------------------------------
// reference (per scalar type)
// ------------------------------------------------------------------------------------------------
template<int D>
struct Ref
{
  bool degenerate = false;     // all k neighbours coincide (tr C = 0): no direction defined
  bool ambiguous = false;      // k-th / (k+1)-th distance within the kd-tree's rounding
  bool ambiguousRot = false;   // ... or within the displacement caused by rounding the rotated cloud
  LD C[D][D];
  LD tr = 0, lam[D], v0[D], gapAbs = 0, dC = 0, pmax = 0, pn = 0;
  // flat piece the whole neighbourhood lies on (noise-free planar / piecewise planar clouds), else -1
  int piece = -1;
  LD sOff = 0, lamA = 0, n0[D];
};

struct Counters
{
  uint64_t dirCheckedSmallGap = 0;
  uint64_t checked = 0, ambiguous = 0, degenerate = 0, gapFiltered = 0, dirChecked = 0, dirIll = 0,
    planarChecked = 0, planarIll = 0, equivChecked = 0, equivSkipped = 0, grazing = 0;
};

template<class S, int D>
std::vector<Ref<D>> buildRefs(const Cloud & cl, const std::vector<S> & xs, bool exactRotation, bool & anyAmbiguous)
{
  const size_t n = cl.n, k = cl.k;
  const LD eps = std::numeric_limits<S>::epsilon();
  std::vector<Ref<D>> refs(n);
  std::vector<LD> norms(n);
  LD pmaxCloud = 0;
  for (size_t i = 0; i < n; ++i) {
    LD a = 0;
    for (int d = 0; d < D; ++d) {a += static_cast<LD>(xs[i * D + d]) * xs[i * D + d];}
    norms[i] = sqrtl(a);
    pmaxCloud = std::max(pmaxCloud, norms[i]);
  }
  const LD ep = eps * pmaxCloud;   // 2x the largest displacement of a point by rounding the rotated cloud
  std::vector<std::pair<LD, size_t>> dist(n);
  for (size_t i = 0; i < n; ++i) {
    Ref<D> & r = refs[i];
    for (size_t j = 0; j < n; ++j) {
      LD a = 0;
      for (int d = 0; d < D; ++d) {
        LD df = static_cast<LD>(xs[i * D + d]) - static_cast<LD>(xs[j * D + d]);
        a += df * df;
      }
      dist[j] = std::make_pair(a, j);
    }
    std::nth_element(dist.begin(), dist.begin() + (k - 1), dist.end());
    LD sk = dist[k - 1].first;
    LD sk1 = dist[k].first;
    for (size_t j = k + 1; j < n; ++j) {sk1 = std::min(sk1, dist[j].first);}
    LD gap = sk1 - sk;
    r.ambiguous = gap <= 64 * eps * sk1;
    r.ambiguousRot = r.ambiguous || (!exactRotation && gap <= 64 * eps * sk1 + 2 * (4 * sqrtl(sk1) * ep + 4 * ep * ep));
    anyAmbiguous = anyAmbiguous || r.ambiguous;
    // covariance of the k nearest
    LD mean[D];
    for (int d = 0; d < D; ++d) {mean[d] = 0;}
    r.pmax = 0;
    int piece = cl.piece[dist[0].second];
    for (size_t q = 0; q < k; ++q) {
      size_t j = dist[q].second;
      for (int d = 0; d < D; ++d) {mean[d] += xs[j * D + d];}
      r.pmax = std::max(r.pmax, norms[j]);
      if (cl.piece[j] != piece) {piece = -1;}
    }
    for (int d = 0; d < D; ++d) {mean[d] /= static_cast<LD>(k);}
    for (int a = 0; a < D; ++a) {for (int b = 0; b < D; ++b) {r.C[a][b] = 0;}}
    for (size_t q = 0; q < k; ++q) {
      size_t j = dist[q].second;
      LD df[D];
      for (int d = 0; d < D; ++d) {df[d] = static_cast<LD>(xs[j * D + d]) - mean[d];}
      for (int a = 0; a < D; ++a) {for (int b = 0; b < D; ++b) {r.C[a][b] += df[a] * df[b];}}
    }
    r.tr = 0;
    for (int a = 0; a < D; ++a) {
      for (int b = 0; b < D; ++b) {r.C[a][b] /= static_cast<LD>(k);}
      r.tr += r.C[a][a];
    }
    r.pn = norms[i];
    if (!(r.tr > 0)) {r.degenerate = true; continue;}
    LD V[D][D];
    jacobiEig<D>(r.C, r.lam, V);
    for (int d = 0; d < D; ++d) {r.v0[d] = V[d][0];}
    r.gapAbs = r.lam[1] - r.lam[0];
    LD kp = static_cast<LD>(k) * eps * r.pmax;
    r.dC = 64 * eps * r.tr + 4 * kp * kp;
    // flat piece: s = n0^T C n0, A = compression of C onto the piece
    r.piece = piece;
    if (piece >= 0) {
      LD n0[3] = {cl.pieceNormal[piece][0], cl.pieceNormal[piece][1], cl.pieceNormal[piece][2]};
      LD nn = 0;
      for (int d = 0; d < D; ++d) {nn += n0[d] * n0[d];}
      nn = sqrtl(nn);
      for (int d = 0; d < D; ++d) {n0[d] /= nn; r.n0[d] = n0[d];}
      // off-plane variance, summed from the projections themselves (n0^T C n0 would cancel: s ~ (u |p|)^2 << eps_LD tr)
      LD s = 0;
      for (size_t q = 0; q < k; ++q) {
        size_t j = dist[q].second;
        LD pr = 0;
        for (int d = 0; d < D; ++d) {pr += n0[d] * (static_cast<LD>(xs[j * D + d]) - mean[d]);}
        s += pr * pr;
      }
      r.sOff = s / static_cast<LD>(k);
      if (D == 2) {
        LD t[2] = {-n0[1], n0[0]};
        LD la = 0;
        for (int a = 0; a < 2; ++a) {for (int b = 0; b < 2; ++b) {la += t[a] * r.C[a][b] * t[b];}}
        r.lamA = la;
      } else {
        int m = 0;
        for (int d = 1; d < 3; ++d) {if (fabsl(n0[d]) < fabsl(n0[m])) {m = d;}}
        LD t1[3] = {0, 0, 0}, t2[3];
        t1[m] = 1;
        LD dp = n0[m];
        LD q = 0;
        for (int d = 0; d < 3; ++d) {t1[d] -= dp * n0[d]; q += t1[d] * t1[d];}
        q = sqrtl(q);
        for (int d = 0; d < 3; ++d) {t1[d] /= q;}
        t2[0] = n0[1] * t1[2] - n0[2] * t1[1]; t2[1] = n0[2] * t1[0] - n0[0] * t1[2]; t2[2] = n0[0] * t1[1] - n0[1] * t1[0];
        LD A[2][2] = {{0, 0}, {0, 0}};
        const LD * T[2] = {t1, t2};
        for (int p = 0; p < 2; ++p) {
          for (int w = 0; w < 2; ++w) {
            for (int a = 0; a < 3; ++a) {for (int b = 0; b < 3; ++b) {A[p][w] += T[p][a] * r.C[a][b] * T[w][b];}}
          }
        }
        LD la[2], VV[2][2];
        jacobiEig<2>(A, la, VV);
        r.lamA = la[0];
      }
    }
  }
  return refs;
}

// ------------------------------------------------------------------------------------------------
// checks of one output set
// ------------------------------------------------------------------------------------------------
template<int D>
LD chord(const LD a[D], const LD b[D], bool moduloSign)
{
  LD p = 0, m = 0;
  for (int d = 0; d < D; ++d) {p += (a[d] - b[d]) * (a[d] - b[d]); m += (a[d] + b[d]) * (a[d] + b[d]);}
  return sqrtl(moduloSign ? std::min(p, m) : p);
}

template<class PT, int D>
void checkOutputs(
  vf::Ctx & c, const char * overload, const Cloud & cl, const std::vector<typename PT::Scalar> & xs,
  const std::vector<Ref<D>> & refs, const NormalSet<PT> & nrm, const std::vector<typename PT::Scalar> * curv,
  Counters * cnt)
{
  typedef typename PT::Scalar S;
  const LD eps = std::numeric_limits<S>::epsilon();
  const char * tn = Name<PT>::get();
  const size_t n = cl.n;
  c.check(nrm.size() == n, vf::fmt("%s %s: normal set resized to %zu (cloud has %zu points)", tn, overload, nrm.size(), n));
  if (curv) {c.check(curv->size() == n, vf::fmt("%s %s: curvature vector resized", tn, overload));}
  for (size_t i = 0; i < n; ++i) {
    const Ref<D> & r = refs[i];
    if (r.degenerate) {if (cnt) {cnt->degenerate++;} continue;}
    LD nv[D], full2 = 0, cart2 = 0, ndotp = 0;
    const int size = static_cast<int>(nrm[i].size());
    bool fin = true;
    for (int d = 0; d < size; ++d) {
      fin = fin && std::isfinite(nrm[i][d]);
      full2 += static_cast<LD>(nrm[i][d]) * nrm[i][d];
    }
    c.check(fin, vf::fmt("%s %s: point %zu: non-finite normal", tn, overload, i));
    for (int d = 0; d < D; ++d) {
      nv[d] = nrm[i][d];
      cart2 += nv[d] * nv[d];
      ndotp += nv[d] * static_cast<LD>(xs[i * D + d]);
    }
    // (1) unit length (whole vector: a homogeneous normal is a direction, its last coordinate stays 0)
    LD ul = fabsl(sqrtl(full2) - 1);
    c.maxStat(sel<S>("float: | |n| - 1 | / eps", "double: | |n| - 1 | / eps"), static_cast<double>(ul / eps));
    c.check(ul <= kUnitTolEps * eps, vf::fmt("%s %s: point %zu: normal has length %.17Lg (k=%zu, n=%zu)", tn, overload, i, sqrtl(full2), cl.k, n));
    // (2) sensor-facing
    if (r.pn > 0) {
      c.maxStat(sel<S>("float: (n.p)/(eps |p|) (positive part)", "double: (n.p)/(eps |p|) (positive part)"),
        static_cast<double>(std::max<LD>(0, ndotp) / (eps * r.pn)));
      c.check(ndotp <= 8 * eps * r.pn,
        vf::fmt("%s %s: point %zu: normal points away from the sensor: n.p = %.6Lg, |p| = %.6Lg", tn, overload, i, ndotp, r.pn));
      if (cnt && fabsl(ndotp) <= 1e-3L * r.pn) {cnt->grazing++;}
    }
    // (3) curvature range - holds whatever the neighbourhood
    S cv = curv ? (*curv)[i] : S(0);
    if (curv) {
      c.check(std::isfinite(cv), vf::fmt("%s %s: point %zu: curvature %g", tn, overload, i, static_cast<double>(cv)));
      c.maxStat(sel<S>("float: -curvature/eps (negative part)", "double: -curvature/eps (negative part)"),
        static_cast<double>(std::max<LD>(0, -static_cast<LD>(cv)) / eps));
      c.maxStat(sel<S>("float: (curvature-1/DIM)/eps (positive part)", "double: (curvature-1/DIM)/eps (positive part)"),
        static_cast<double>(std::max<LD>(0, static_cast<LD>(cv) - 1.0L / D) / eps));
      c.check(static_cast<LD>(cv) >= -kCurvRangeTolEps * eps && static_cast<LD>(cv) <= 1.0L / D + kCurvRangeTolEps * eps,
        vf::fmt("%s %s: point %zu: curvature %.17g outside [0, 1/%d]", tn, overload, i, static_cast<double>(cv), D));
    }
    if (r.ambiguous) {if (cnt) {cnt->ambiguous++;} continue;}
    if (cnt) {cnt->checked++;}
    // (4) direction of least variance: Rayleigh quotient against the brute-force neighbourhood
    LD rq = 0;
    for (int a = 0; a < D; ++a) {for (int b = 0; b < D; ++b) {rq += nv[a] * r.C[a][b] * nv[b];}}
    rq /= cart2;
    LD ex = rq - r.lam[0];
    c.maxStat(sel<S>("float: (n^T C n - lambda_min)/(eps tr C)", "double: (n^T C n - lambda_min)/(eps tr C)"),
      static_cast<double>(ex / (eps * r.tr)));
    c.maxStat(sel<S>("float: (n^T C n - lambda_min)/tolerance", "double: (n^T C n - lambda_min)/tolerance"),
      static_cast<double>(ex / r.dC));
    c.check(ex <= r.dC,
      vf::fmt("%s %s: point %zu (k=%zu): normal is not the direction of least variance of the %zu nearest neighbours: "
      "n^T C n = %.9Lg, smallest eigenvalue %.9Lg, trace %.9Lg (excess %.3Lg > tolerance %.3Lg)", tn, overload, i, cl.k, cl.k,
      rq, r.lam[0], r.tr, ex, r.dC));
    // (5) curvature = lambda_min / trace
    if (curv) {
      LD want = r.lam[0] / r.tr, ce = fabsl(static_cast<LD>(cv) - want), tol = 2 * r.dC / r.tr;
      c.maxStat(sel<S>("float: |curvature - lambda_min/tr|/tolerance", "double: |curvature - lambda_min/tr|/tolerance"),
        static_cast<double>(ce / tol));
      c.check(ce <= tol,
        vf::fmt("%s %s: point %zu (k=%zu): curvature %.12g, smallest eigenvalue / trace of the neighbourhood covariance is %.12Lg "
        "(eigenvalues %.6Lg %.6Lg, tolerance %.3Lg)", tn, overload, i, cl.k, static_cast<double>(cv), want, r.lam[0], r.lam[1], tol));
    }
    // (6) n = +-v_min where the smallest eigenvalue is distinct (the property's eigen-gap condition)
    const bool gapOk = r.gapAbs > 1e-6L * r.tr;
    if (!gapOk) {
      if (cnt) {cnt->gapFiltered++;}
    } else {
      LD tol = 2 * r.dC / r.gapAbs;
      if (tol > 0.1L) {
        if (cnt) {cnt->dirIll++;}
      } else {
        LD ch = chord<D>(nv, r.v0, true);
        c.maxStat(sel<S>("float: chord(n, +-v_min)/tolerance", "double: chord(n, +-v_min)/tolerance"), static_cast<double>(ch / (tol + 4 * eps)));
        c.check(ch <= tol + 4 * eps,
          vf::fmt("%s %s: point %zu (k=%zu): normal differs from the minor eigenvector of the neighbourhood covariance by %.3Lg "
          "(tolerance %.3Lg, relative eigen-gap %.3Lg)", tn, overload, i, cl.k, ch, tol, r.gapAbs / r.tr));
        if (cnt) {cnt->dirChecked++;}
        if (cnt && r.gapAbs <= 1e-3L * r.tr) {cnt->dirCheckedSmallGap++;}
      }
    }
    // (7) flat neighbourhood (planar / linear cloud, or one face of a piecewise planar one): the surface normal, curvature 0
    if (r.piece >= 0 && gapOk) {
      if (!(r.lamA > 0) || r.sOff > r.lamA / 16) {
        if (cnt) {cnt->planarIll++;}
      } else {
        LD tol = 2 * sqrtl((D - 1) * r.sOff / r.lamA) + 3 * r.dC / r.lamA;
        if (tol > 0.1L) {
          if (cnt) {cnt->planarIll++;}
        } else {
          LD n0p = 0;
          for (int d = 0; d < D; ++d) {n0p += r.n0[d] * static_cast<LD>(xs[i * D + d]);}
          LD want[D];
          for (int d = 0; d < D; ++d) {want[d] = (n0p > 0) ? -r.n0[d] : r.n0[d];}
          LD ch = chord<D>(nv, want, false);
          c.maxStat(sel<S>("float: chord(n, surface normal)/tolerance", "double: chord(n, surface normal)/tolerance"),
            static_cast<double>(ch / (tol + 4 * eps)));
          c.maxStat(sel<S>("float: chord(n, surface normal) (flat clouds)", "double: chord(n, surface normal) (flat clouds)"),
            static_cast<double>(ch));
          c.check(ch <= tol + 4 * eps,
            vf::fmt("%s %s: point %zu (k=%zu): flat neighbourhood: normal differs from the sensor-facing surface normal by %.3Lg "
            "(tolerance %.3Lg; off-plane variance %.3Lg, smallest in-plane variance %.3Lg)", tn, overload, i, cl.k, ch, tol, r.sOff, r.lamA));
          if (curv) {
            LD ctol = r.sOff / r.tr + 2 * r.dC / r.tr;
            c.maxStat(sel<S>("float: |curvature| on flat clouds", "double: |curvature| on flat clouds"), std::fabs(static_cast<double>(cv)));
            c.check(fabsl(static_cast<LD>(cv)) <= ctol,
              vf::fmt("%s %s: point %zu (k=%zu): flat neighbourhood: curvature %.6g, expected 0 within %.3Lg", tn, overload, i, cl.k,
              static_cast<double>(cv), ctol));
          }
          if (cnt) {cnt->planarChecked++;}
        }
      }
    }
  }
}

// rotated cloud vs. rotated normals
template<class PT, int D>
void checkEquivariance(
  vf::Ctx & c, const Cloud & cl, const Rot & R, const std::vector<typename PT::Scalar> & xs,
  const std::vector<typename PT::Scalar> & xr, const std::vector<Ref<D>> & refs,
  const NormalSet<PT> & n0, const std::vector<typename PT::Scalar> & c0,
  const NormalSet<PT> & n1, const std::vector<typename PT::Scalar> & c1, Counters & cnt)
{
  typedef typename PT::Scalar S;
  const LD eps = std::numeric_limits<S>::epsilon();
  const char * tn = Name<PT>::get();
  for (size_t i = 0; i < cl.n; ++i) {
    const Ref<D> & r = refs[i];
    // unit length and orientation hold for the rotated cloud in its own right
    LD full2 = 0, ndotp = 0, pr2 = 0;
    const int size = static_cast<int>(n1[i].size());
    for (int d = 0; d < size; ++d) {full2 += static_cast<LD>(n1[i][d]) * n1[i][d];}
    for (int d = 0; d < D; ++d) {
      ndotp += static_cast<LD>(n1[i][d]) * static_cast<LD>(xr[i * D + d]);
      pr2 += static_cast<LD>(xr[i * D + d]) * xr[i * D + d];
    }
    if (r.degenerate) {continue;}
    c.check(std::isfinite(static_cast<double>(full2)) && fabsl(sqrtl(full2) - 1) <= kUnitTolEps * eps,
      vf::fmt("%s rotated cloud: point %zu: normal has length %.17Lg", tn, i, sqrtl(full2)));
    c.check(ndotp <= 8 * eps * sqrtl(pr2), vf::fmt("%s rotated cloud: point %zu: normal points away from the sensor: n.p = %.6Lg", tn, i, ndotp));
    if (r.ambiguousRot || !(r.gapAbs > 1e-6L * r.tr)) {cnt.equivSkipped++; continue;}
    LD e = eps * r.pmax;
    LD Delta = R.exact ? 0.0L : 4 * e * sqrtl(r.tr) + 2 * e * e;
    LD tol = 2 * (2 * r.dC + Delta) / r.gapAbs;
    if (tol > 0.1L) {cnt.equivSkipped++; continue;}
    LD a[D], b[D], np = 0;
    for (int p = 0; p < D; ++p) {
      a[p] = 0;
      for (int q = 0; q < D; ++q) {a[p] += R.m[p][q] * static_cast<LD>(n0[i][q]);}
      b[p] = n1[i][p];
      np += static_cast<LD>(n0[i][p]) * static_cast<LD>(xs[i * D + p]);
    }
    // both normals face the sensor, so the signs agree - unless the surface is seen edge-on within the tolerance
    bool grazing = fabsl(np) <= (tol + 16 * eps) * r.pn;
    LD ch = chord<D>(a, b, grazing);
    c.maxStat(sel<S>("float: chord(R n, n(rotated cloud))/tolerance", "double: chord(R n, n(rotated cloud))/tolerance"),
      static_cast<double>(ch / (tol + 4 * eps)));
    c.check(ch <= tol + 4 * eps,
      vf::fmt("%s equivariance: point %zu (k=%zu): normal of the rotated cloud differs from the rotated normal by %.3Lg (tolerance %.3Lg, "
      "relative eigen-gap %.3Lg, %s rotation)", tn, i, cl.k, ch, tol, r.gapAbs / r.tr, R.exact ? "signed-permutation" : "random"));
    LD ce = fabsl(static_cast<LD>(c1[i]) - static_cast<LD>(c0[i])), ctol = 4 * (r.dC + Delta) / r.tr;
    c.maxStat(sel<S>("float: |curvature(rotated) - curvature|/tolerance", "double: |curvature(rotated) - curvature|/tolerance"),
      static_cast<double>(ce / ctol));
    c.check(ce <= ctol,
      vf::fmt("%s equivariance: point %zu (k=%zu): curvature changes from %.12g to %.12g under a rotation about the origin (tolerance %.3Lg)",
      tn, i, cl.k, static_cast<double>(c0[i]), static_cast<double>(c1[i]), ctol));
    cnt.equivChecked++;
  }
}

template<class PT, int D>
void runType(
  vf::Ctx & c, const Cloud & cl, const Rot & R, const std::vector<typename PT::Scalar> & xs,
  const std::vector<typename PT::Scalar> & xr, const std::vector<Ref<D>> & refs, Counters & cnt)
{
  typedef typename PT::Scalar S;
  const size_t n = cl.n;
  const S nan = std::numeric_limits<S>::quiet_NaN();
  PointSet<PT> pts(n), ptsR(n);
  for (size_t i = 0; i < n; ++i) {
    pts[i] = makePoint<PT>(&xs[i * D], D);
    ptsR[i] = makePoint<PT>(&xr[i * D], D);
  }
  KdTree<PT> tree(pts);
  NormalAndCurvatureEstimation<PT> est(cl.k);
  NormalSet<PT> nrm(n, PT::Zero());
  std::vector<S> curv(n, nan), rel(n, nan);

  est.compute(pts, nrm);
  checkOutputs<PT, D>(c, "compute(points, normals)", cl, xs, refs, nrm, nullptr, nullptr);

  nrm.assign(n, PT::Zero());
  est.compute(pts, tree, nrm);
  checkOutputs<PT, D>(c, "compute(points, kdtree, normals)", cl, xs, refs, nrm, nullptr, nullptr);

  nrm.assign(n, PT::Zero()); curv.assign(n, nan);
  est.compute(pts, nrm, curv);
  checkOutputs<PT, D>(c, "compute(points, normals, curvatures)", cl, xs, refs, nrm, &curv, nullptr);

  nrm.assign(n, PT::Zero()); curv.assign(n, nan);
  est.compute(pts, tree, nrm, curv);
  checkOutputs<PT, D>(c, "compute(points, kdtree, normals, curvatures)", cl, xs, refs, nrm, &curv, nullptr);

  nrm.assign(n, PT::Zero()); curv.assign(n, nan); rel.assign(n, nan);
  est.compute(pts, nrm, curv, rel);
  checkOutputs<PT, D>(c, "compute(points, normals, curvatures, reliability)", cl, xs, refs, nrm, &curv, nullptr);

  nrm.assign(n, PT::Zero()); curv.assign(n, nan); rel.assign(n, nan);
  est.compute(pts, tree, nrm, curv, rel);
  checkOutputs<PT, D>(c, "compute(points, kdtree, normals, curvatures, reliability)", cl, xs, refs, nrm, &curv, &cnt);

  // rotational equivariance, and history independence of the estimator: the SAME estimator object, which has just
  // processed the original cloud through every overload, now gets the rotated cloud written in place into the SAME
  // PointSet object (same size, as a scan buffer refilled every frame); its output must equal, bit for bit, that of
  // a fresh estimator on a separate copy, and must be the rotated normals
  NormalAndCurvatureEstimation<PT> estR(cl.k);
  NormalSet<PT> nrmR(n, PT::Zero());
  std::vector<S> curvR(n, nan), relR(n, nan);
  estR.compute(ptsR, nrmR, curvR, relR);
  for (size_t i = 0; i < n; ++i) {pts[i] = ptsR[i];}
  NormalSet<PT> nrmU(n, PT::Zero());
  std::vector<S> curvU(n, nan), relU(n, nan);
  est.compute(pts, nrmU, curvU, relU);
  for (size_t i = 0; i < n; ++i) {
    bool same = (nrmU[i].array() == nrmR[i].array()).all() &&
      (curvU[i] == curvR[i] || (std::isnan(curvU[i]) && std::isnan(curvR[i])));
    if (!same) {
      c.fail(vf::fmt("%s: estimator reused on a point set refilled in place gives a different result than a fresh estimator at point %zu "
        "(normal (%.9g,%.9g,..) vs (%.9g,%.9g,..), curvature %.9g vs %.9g): state from the previous cloud leaked",
        Name<PT>::get(), i, static_cast<double>(nrmU[i][0]), static_cast<double>(nrmU[i][1]), static_cast<double>(nrmR[i][0]),
        static_cast<double>(nrmR[i][1]), static_cast<double>(curvU[i]), static_cast<double>(curvR[i])));
    }
  }
  checkEquivariance<PT, D>(c, cl, R, xs, xr, refs, nrm, curv, nrmR, curvR, cnt);
}

template<class S, int D>
void runScalar(vf::Ctx & c, const Cloud & cl, const Rot & R, Counters & cnt, bool & anyAmbiguous)
{
  typedef Eigen::Matrix<S, D, 1> Cart;
  typedef typename HomOf<S, D>::type Hom;
  const size_t n = cl.n;
  std::vector<S> xs(n * D), xr(n * D);
  for (size_t i = 0; i < n * D; ++i) {xs[i] = static_cast<S>(cl.x[i]);}
  for (size_t i = 0; i < n; ++i) {
    for (int p = 0; p < D; ++p) {
      LD a = 0;
      for (int q = 0; q < D; ++q) {a += R.m[p][q] * static_cast<LD>(xs[i * D + q]);}
      xr[i * D + p] = static_cast<S>(a);
    }
  }
  std::vector<Ref<D>> refs = buildRefs<S, D>(cl, xs, R.exact, anyAmbiguous);
  runType<Cart, D>(c, cl, R, xs, xr, refs, cnt);
  runType<Hom, D>(c, cl, R, xs, xr, refs, cnt);
}

void body(vf::Ctx & c, int64_t nLo, int64_t nHi, bool grow)
{
  Cloud cl = genCloud(c, nLo, nHi, grow);
  Rot R = genRotation(c, cl.dim);
  // isolated groups of exactly k points (poles, wires, blobs): every point's k nearest neighbours are its own group, and
  // the group is shaped so that its two smallest covariance eigenvalues are close but distinct (relative difference
  // 1e-6 .. 1e-2). The direction of least variance is still defined there and the statement asks for it down to 1e-6.
  if (c.s.pick("neighbourhood_structure", {4, 1}) == 1 && cl.k >= static_cast<size_t>(cl.dim) + 2 && cl.n >= 2 * cl.k) {
    const int D = cl.dim;
    const size_t k = cl.k, nc = std::min<size_t>(cl.n / k, 40);   // 13^D - 1 lattice cells are available
    const double g0 = c.s.rlog("group_eigenvalue_gap", 1e-6, 1e-2);
    const double s = c.s.rlog("group_size", 0.01, 1.0);
    vf::Rng rng(c.s.seed("group_seed"));
    std::vector<std::array<int, 3>> used;
    size_t at = 0;
    for (size_t q = 0; q < nc; ++q) {
      // centre on a coarse lattice (spacing 60 group sizes, a group is at most sqrt(k*D) < 10 sizes wide), never the cell
      // of the sensor
      std::array<int, 3> cell{};
      for (;; ) {
        for (int d = 0; d < 3; ++d) {cell[d] = d < D ? static_cast<int>(rng.range(-6, 6)) : 0;}
        bool origin = true, dup = false;
        for (int d = 0; d < D; ++d) {origin = origin && cell[d] == 0;}
        for (const auto & u : used) {dup = dup || u == cell;}
        if (!origin && !dup) {break;}
      }
      used.push_back(cell);
      Eigen::MatrixXd X(k, D);
      for (size_t i = 0; i < k; ++i) {for (int d = 0; d < D; ++d) {X(i, d) = rng.gauss();}}
      X.rowwise() -= X.colwise().mean();
      Eigen::MatrixXd C = X.transpose() * X / static_cast<double>(k);
      Eigen::SelfAdjointEigenSolver<Eigen::MatrixXd> es(C);
      if (!(es.eigenvalues()[0] > 1e-6)) {continue;}   // degenerate draw: leave this group's points where they were
      Eigen::MatrixXd W = es.eigenvectors() * es.eigenvalues().cwiseSqrt().cwiseInverse().asDiagonal();
      Eigen::VectorXd mu(D);
      mu[0] = 1.0; mu[1] = 1.0 + g0 * rng.uniform(0.3, 3.0);
      if (D == 3) {mu[2] = rng.uniform(1.5, 25.0);}
      double e[3][3];
      randomFrame(rng, D, e);
      Eigen::MatrixXd Q(D, D);
      for (int r = 0; r < D; ++r) {for (int d = 0; d < D; ++d) {Q(r, d) = e[r][d];}}
      Eigen::MatrixXd Xp = X * W * mu.cwiseSqrt().asDiagonal() * Q * s;
      for (size_t i = 0; i < k; ++i, ++at) {
        for (int d = 0; d < D; ++d) {cl.x[at * D + d] = 60.0 * s * cell[d] + Xp(i, d);}
        cl.piece[at] = -1;
      }
    }
    // left-over points: a sparse far-away row of their own
    for (size_t j = 0; at < cl.n; ++at, ++j) {
      for (int d = 0; d < D; ++d) {cl.x[at * D + d] = 60.0 * s * (d == 0 ? 9.0 + static_cast<double>(j) : 7.5 + 0.37 * static_cast<double>(j * (d + 1)));}
      cl.piece[at] = -1;
    }
    c.label("isolated-groups-of-k-points(two smallest eigenvalues close)");
  }
  // merged scans / multi-echo returns: some points stored more than once (exact copies of another point; a neighbourhood
  // that collapses to one location because of them is degenerate and handled as such). The k nearest neighbours of a point then
  // contain its copies, and the definition does not change.
  size_t rep = c.s.pick("repeated_points", {3, 1, 1});
  if (rep != 0) {
    vf::Rng rng(c.s.seed("repeat_seed"));
    const int D = cl.dim;
    std::vector<char> isCopy(cl.n, 0);
    size_t made = 0;
    for (size_t j = 1; j < cl.n; ++j) {
      bool take = rep == 2 ? (j % 2 == 1) : rng.below(100) < 4;
      if (!take) {continue;}
      size_t src = rep == 2 ? j - 1 : static_cast<size_t>(rng.below(j));
      if (isCopy[src]) {continue;}
      for (int d = 0; d < D; ++d) {cl.x[j * D + d] = cl.x[src * D + d];}
      cl.piece[j] = cl.piece[src];
      isCopy[j] = 1;
      made++;
    }
    c.labelIf(made > 0, rep == 2 ? "cloud-with-repeated-points(every point twice)" : "cloud-with-repeated-points(a few)");
  }
  c.nontrivial(cl.kind != PLANAR || cl.noisy || cl.n > 2 * cl.k);
  c.commit();

  Counters cnt;
  bool anyAmbiguous = false;
  if (cl.dim == 2) {
    runScalar<double, 2>(c, cl, R, cnt, anyAmbiguous);
    runScalar<float, 2>(c, cl, R, cnt, anyAmbiguous);
  } else {
    runScalar<double, 3>(c, cl, R, cnt, anyAmbiguous);
    runScalar<float, 3>(c, cl, R, cnt, anyAmbiguous);
  }
  c.labelIf(anyAmbiguous, "cloud-with-ambiguous-neighbourhood(points skipped)");
  c.labelIf(cnt.gapFiltered > 0, "cloud-with-eigen-gap<=1e-6(direction not checked there)");
  c.labelIf(cnt.planarChecked > 0, "flat-neighbourhood-exactness-checked");
  c.labelIf(cnt.grazing > 0, "surface-seen-edge-on(|n.p|<1e-3|p|)");
  // per-point counters (points x 4 point types), only for cases that passed
  auto & cls = c.st.classes;
  cls["points:checked-against-covariance"] += cnt.checked;
  cls["points:ambiguous-neighbourhood(skipped)"] += cnt.ambiguous;
  cls["points:degenerate-neighbourhood(skipped)"] += cnt.degenerate;
  cls["points:eigen-gap<=1e-6(direction skipped)"] += cnt.gapFiltered;
  cls["points:direction-checked"] += cnt.dirChecked;
  cls["points:direction-checked-with-eigen-gap-in(1e-6,1e-3]"] += cnt.dirCheckedSmallGap;
  cls["points:direction-tolerance>0.1(skipped)"] += cnt.dirIll;
  cls["points:flat-exactness-checked"] += cnt.planarChecked;
  cls["points:flat-ill-conditioned(skipped)"] += cnt.planarIll;
  cls["points:equivariance-checked"] += cnt.equivChecked;
  cls["points:equivariance-skipped(ambiguous/ill-conditioned)"] += cnt.equivSkipped;
}

void normals(vf::Ctx & c) {body(c, 4, 600, true);}
void normalsLarge(vf::Ctx & c) {body(c, 601, 2000, false);}

const char * kRule =
  "D in {2,3}; k in [3,30]; sensor at the origin; surfaces: exact line/plane at offset 1..5 (random orientation, or axis-aligned with a "
  "dyadic offset = exactly representable; in 3D optionally a thin strip with aspect 1e-8..1e-1), box corner of 2..3 faces (each face plane 1..5 from the origin), circle arc / sphere cap / "
  "cylinder patch seen from outside or inside; extent log-uniform 0.1..5; optional isotropic noise 1e-6..3e-2 of the extent (clipped at 3 "
  "sigma); optional common scale 0.05..50; continuous (non-lattice) sampling; rotation about the origin: one of the 4 / 24 signed "
  "permutations (exact) or random axis/angle. Every cloud is run on the four point types of its dimension, all six overloads. "
  "Non-trivial: non-planar or noisy cloud, or planar cloud with n > 2k.";

const std::vector<vf::Sub> kSubs = {
  {"normals", normals, kRule},
  {"normals_large", normalsLarge, kRule},
};

}  // namespace

VF_HARNESS(kSubs)
