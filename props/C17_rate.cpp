// C17 - Rate monitoring and rate check-ups follow the stamped-event history exactly
//
// Every draw is an integer (pick / i / len): the same body is driven by rapidcheck and, later, by libFuzzer bytes.
// The lower bound of every draw is its simplest value (an exhausted fuzz input degenerates to a short steady history).
#include "vf_main.hpp"

#include <deque>
#include <sstream>
#include <string>
#include <vector>

#include "romea_core_common/diagnostic/CheckupRate.hpp"
#include <memory>
#include "romea_core_common/monitoring/RateMonitoring.hpp"

using romea::core::CheckupEqualToRate;
using romea::core::CheckupGreaterThanRate;
using romea::core::DiagnosticReport;
using romea::core::DiagnosticStatus;
using romea::core::Duration;
using romea::core::RateMonitoring;

namespace {

typedef long long ll;
const ll NS_MIN_PERIOD = 1000;            // 1 microsecond
const ll NS_MAX_PERIOD = 10000000000LL;   // 10 s
const ll NS_HALF = 500000000LL;           // the 0.5 s silence limit
const double RATE_TOL = 1e-12;            // relative, property T
const double ZONE = 1e-9;                 // either-verdict zone, relative to the threshold

struct Ev {bool data; ll t;};

std::string pr(double v)
{
  std::ostringstream os;
  os << v;
  return os.str();
}

const char * statusName(DiagnosticStatus s)
{
  switch (s) {
    case DiagnosticStatus::OK: return "OK";
    case DiagnosticStatus::WARN: return "WARN";
    case DiagnosticStatus::ERROR: return "ERROR";
    case DiagnosticStatus::STALE: return "STALE";
  }
  return "?";
}

ll clampPeriod(ll p)
{
  if (p < NS_MIN_PERIOD) {return NS_MIN_PERIOD;}
  if (p > NS_MAX_PERIOD) {return NS_MAX_PERIOD;}
  return p;
}

// a base period for a segment: nominal, nominal scaled to a rate next to a threshold, log-uniform, or an extreme
ll drawPeriod(vf::Ctx & c, double rate)
{
  size_t k = c.s.pick("period_class", {3, 3, 2, 1});
  switch (k) {
    case 0: return clampPeriod(std::llround(1e9 / rate));
    case 1: {
        // target rate = rate * num/den : lands within integer-rounding distance of rate -+ rate/8, rate -+ rate/64, ...
        static const int num[] = {7, 9, 63, 65, 1, 2, 15, 17};
        static const int den[] = {8, 8, 64, 64, 2, 1, 16, 16};
        size_t q = c.s.pick("ratio", {1, 1, 1, 1, 1, 1, 1, 1});
        return clampPeriod(std::llround(1e9 * den[q] / (rate * num[q])));
      }
    case 2: {
        ll e = c.s.i("p_exp", 0, 6);
        ll m = c.s.i("p_mant", 1000, 9999);
        ll p = m;
        for (ll j = 0; j < e; ++j) {p *= 10;}
        return clampPeriod(p);
      }
    default: {
        static const ll ext[] = {NS_MIN_PERIOD, NS_HALF, NS_HALF - 1, NS_HALF + 1, NS_MAX_PERIOD};
        return ext[c.s.pick("p_extreme", {1, 1, 1, 1, 1})];
      }
  }
}

enum ModelState { NODATA, EVAL, STALE };
enum Verdict { V_OK = 1, V_LOW = 2, V_HIGH = 4 };

struct Config
{
  std::string name;
  double rate, eps;
  ll W;
};

bool inZone(double x, double thr) {return std::fabs(x - thr) <= ZONE * std::fabs(thr);}

// set of verdicts the property allows for a model rate x (exactZero: the model rate is the literal 0, no rounding)
int allowedVerdicts(bool equalTo, double x, bool exactZero, double lo, double hi, bool & ambiguous)
{
  ambiguous = false;
  int set = 0;
  if (equalTo) {
    if (x < lo) {set = V_LOW;} else if (x > hi) {set = V_HIGH;} else {set = V_OK;}
    if (!exactZero) {
      if (inZone(x, lo)) {set |= V_LOW | V_OK; ambiguous = true;}
      if (inZone(x, hi)) {set |= V_HIGH | V_OK; ambiguous = true;}
    }
  } else {
    set = (x > lo) ? V_OK : V_LOW;
    if (!exactZero && inZone(x, lo)) {set |= V_LOW | V_OK; ambiguous = true;}
  }
  return set;
}

struct Snapshot
{
  DiagnosticStatus status;
  std::string message, value;
};

// structural checks every report must satisfy; returns the single diagnostic + value
Snapshot snapshot(vf::Ctx & c, const DiagnosticReport & rep, const Config & cfg, const std::string & w)
{
  c.check(rep.diagnostics.size() == 1, vf::fmt("%s: report has %zu diagnostics, expected 1", w.c_str(), rep.diagnostics.size()));
  c.check(rep.info.size() == 1, vf::fmt("%s: report has %zu info entries, expected 1", w.c_str(), rep.info.size()));
  const std::string key = cfg.name + "_rate";
  c.check(rep.info.begin()->first == key, vf::fmt("%s: info key '%s', expected '%s'", w.c_str(), rep.info.begin()->first.c_str(), key.c_str()));
  return Snapshot{rep.diagnostics.front().status, rep.diagnostics.front().message, rep.info.begin()->second};
}

void checkNoData(vf::Ctx & c, const Snapshot & s, const Config & cfg, const std::string & w)
{
  c.check(s.status == DiagnosticStatus::ERROR, vf::fmt("%s: status %s before the first stamp, expected ERROR", w.c_str(), statusName(s.status)));
  c.check(s.message == "no data received from " + cfg.name, vf::fmt("%s: message '%s' before the first stamp", w.c_str(), s.message.c_str()));
  c.check(s.value.empty(), vf::fmt("%s: value '%s' before the first stamp, expected empty", w.c_str(), s.value.c_str()));
}

void checkStale(vf::Ctx & c, const Snapshot & s, const Config & cfg, const std::string & w)
{
  c.check(s.status == DiagnosticStatus::STALE, vf::fmt("%s: status %s after a timeout, expected STALE", w.c_str(), statusName(s.status)));
  c.check(s.message == cfg.name + "_rate timeout.", vf::fmt("%s: message '%s' after a timeout", w.c_str(), s.message.c_str()));
  c.check(s.value.empty(), vf::fmt("%s: value '%s' after a timeout, expected empty", w.c_str(), s.value.c_str()));
}

// report after a stamp: status/message agree with each other and with an allowed verdict; value string is the rate
struct Seen {bool ambiguous = false, printBoundary = false; int verdicts = 0;};

int checkEval(
  vf::Ctx & c, const Snapshot & s, const Config & cfg, bool equalTo, double x, bool exactZero,
  const std::string & w, Seen & seen)
{
  const double lo = cfg.rate - cfg.eps, hi = cfg.rate + cfg.eps;
  bool amb = false;
  const int allowed = allowedVerdicts(equalTo, x, exactZero, lo, hi, amb);
  const std::string key = cfg.name + "_rate";
  int got = 0;
  if (s.status == DiagnosticStatus::OK && s.message == key + " is OK.") {got = V_OK;}
  if (s.status == DiagnosticStatus::ERROR && s.message == key + " is too low.") {got = V_LOW;}
  if (s.status == DiagnosticStatus::ERROR && s.message == key + " is too high.") {got = V_HIGH;}
  c.check(got != 0, vf::fmt("%s: status %s with message '%s' is not a coherent verdict", w.c_str(), statusName(s.status), s.message.c_str()));
  c.check((got & allowed) != 0,
    vf::fmt("%s: verdict '%s' for rate %.17g, expected rate %.17g eps %.17g (thresholds %.17g / %.17g, allowed mask %d)",
    w.c_str(), s.message.c_str(), x, cfg.rate, cfg.eps, lo, hi, allowed));
  // value string: operator<< text of the rate (the rate is known to 1e-12 relative: both ends of that interval print
  // the same text except on a 6-digit rounding boundary)
  const std::string want = pr(x);
  if (s.value != want) {
    const std::string a = pr(x * (1 - RATE_TOL)), b = pr(x * (1 + RATE_TOL));
    c.check(!exactZero && (s.value == a || s.value == b),
      vf::fmt("%s: value string '%s', expected '%s' (rate %.17g)", w.c_str(), s.value.c_str(), want.c_str(), x));
    seen.printBoundary = true;
  }
  if (amb) {seen.ambiguous = true;}
  seen.verdicts |= got;
  return got;
}

void history(vf::Ctx & c)
{
  // ------------------------------------------------ configuration -----------------------------------------------
  Config cfg;
  static const char * names[] = {"foo", "imu", "gps_fix"};
  cfg.name = names[c.s.pick("name", {1, 1, 1})];
  switch (c.s.pick("rate_class", {2, 1, 1, 2, 2, 4})) {
    case 5: cfg.rate = c.s.i("rate_mid_16th", 32, 512) / 16.0; break;   // 4 <= 2*rate <= 64 : window = floor(2*rate)
    case 0: cfg.rate = static_cast<double>(c.s.i("rate_hz", 1, 200)); break;
    case 1: cfg.rate = c.s.i("rate_16th", 8, 3200) / 16.0; break;
    case 2: cfg.rate = c.s.i("rate_10th", 5, 2000) / 10.0; break;
    case 3: cfg.rate = c.s.i("rate_low_16th", 8, 31) / 16.0; break;      // 2*rate < 4 : lower window clamp
    default: cfg.rate = static_cast<double>(c.s.i("rate_high_hz", 33, 200)); break;   // 2*rate > 64 : upper clamp
  }
  switch (c.s.pick("eps_class", {2, 3, 2, 2, 1})) {
    case 0: cfg.eps = 0.0; break;
    case 1: cfg.eps = cfg.rate / 8; break;
    case 2: cfg.eps = c.s.i("eps_16th", 1, 320) / 16.0; break;
    case 3: cfg.eps = cfg.rate / 64; break;
    default: cfg.eps = cfg.rate + c.s.i("eps_over_16th", 0, 64) / 16.0; break;   // eps >= rate: never too low
  }
  const double twice = std::floor(2.0 * cfg.rate);
  cfg.W = static_cast<ll>(twice);
  if (cfg.W < 4) {cfg.W = 4;}
  if (cfg.W > 64) {cfg.W = 64;}
  if (twice < 4) {c.label("window-clamped-low(W=4)");} else if (twice > 64) {c.label("window-clamped-high(W=64)");} else {
    c.label("window-unclamped");
  }
  if (2.0 * cfg.rate != twice) {c.label("fractional-2*rate");}

  ll base = 0;
  switch (c.s.pick("t0_class", {2, 2, 2, 1})) {
    case 0: base = 0; break;
    case 1: base = c.s.i("t0_ns", 0, 2000000000LL); break;
    case 2: base = 1700000000000000000LL + c.s.i("t0_epoch_off", 0, 100000000000000000LL); break;
    default: base = c.s.i("t0_any", 0, 2000000000000000000LL); break;
  }

  // ------------------------------------------------ timeline ----------------------------------------------------
  const size_t n = static_cast<size_t>(c.s.len("n_events", 1, 500));
  std::vector<Ev> evs;
  evs.reserve(n);
  ll lastStamp = base, now = base;
  bool haveStamp = false;
  auto pushData = [&](ll p) {
      if (evs.size() >= n) {return;}
      ll t = haveStamp ? std::max(lastStamp + clampPeriod(p), now) : now;
      evs.push_back(Ev{true, t});
      lastStamp = t; now = t; haveStamp = true;
    };
  auto pushHb = [&](ll off) {   // heart beat 'off' ns after the last stamp (never more than 10 s, never back in time)
      if (evs.size() >= n) {return;}
      if (off > NS_MAX_PERIOD) {off = NS_MAX_PERIOD;}
      ll h = std::max(lastStamp + off, now);
      evs.push_back(Ev{false, h});
      now = h;
    };
  while (evs.size() < n) {
    switch (c.s.pick("segment", {4, 3, 3, 2, 2, 2})) {
      case 0: {   // steady
          ll p = drawPeriod(c, cfg.rate);
          ll m = c.s.i("seg_n", 1, 70);
          for (ll j = 0; j < m; ++j) {pushData(p);}
          break;
        }
      case 1: {   // silence: heart beats at chosen distances from the last stamp
          ll m = c.s.i("hb_n", 1, 4);
          for (ll j = 0; j < m && evs.size() < n; ++j) {
            switch (c.s.pick("hb_off_class", {3, 2, 2, 1, 1})) {
              case 0: pushHb(NS_HALF + c.s.i("hb_d", -3, 3)); break;               // just below / exactly / just above 0.5 s
              case 1: pushHb(c.s.i("hb_in", 0, NS_HALF - 4)); break;               // inside the limit
              case 2: pushHb(NS_HALF + 4 + c.s.i("hb_out", 0, 9500000000LL - 4)); break;   // beyond, up to 10 s
              case 3: pushHb(0); break;                                            // no progress in time (repeat)
              default: pushHb(NS_MAX_PERIOD); break;
            }
          }
          break;
        }
      case 2: {   // jittered
          ll p = drawPeriod(c, cfg.rate);
          static const ll div[] = {1000, 100, 10, 2};
          ll J = std::max<ll>(1, p / div[c.s.pick("jitter_class", {1, 1, 1, 1})]);
          ll m = c.s.i("seg_n", 1, 70);
          for (ll j = 0; j < m && evs.size() < n; ++j) {pushData(p + c.s.i("jitter", -J, J));}
          break;
        }
      case 3: {   // burst
          ll m = c.s.i("seg_n", 1, 70);
          for (ll j = 0; j < m && evs.size() < n; ++j) {pushData(c.s.i("burst_p", NS_MIN_PERIOD, 100000));}
          break;
        }
      case 4: {   // data interleaved with heart beats inside the period
          ll p = drawPeriod(c, cfg.rate);
          ll m = c.s.i("seg_n", 1, 35);
          for (ll j = 0; j < m && evs.size() < n; ++j) {
            pushData(p);
            pushHb(static_cast<ll>((static_cast<__int128>(p) * c.s.i("hb_frac_1000th", 0, 1000)) / 1000));
          }
          break;
        }
      default: {  // irregular: every period log-uniform over 1 us .. 10 s
          ll m = c.s.i("seg_n", 1, 70);
          for (ll j = 0; j < m && evs.size() < n; ++j) {
            ll e = c.s.i("p_exp", 0, 6);
            ll p = c.s.i("p_mant", 1000, 9999);
            for (ll q = 0; q < e; ++q) {p *= 10;}
            pushData(p);
          }
          break;
        }
    }
  }
  // value semantics of the monitor (its copy constructor is hand written): before one event of the history the
  // monitor is replaced by a copy of itself; -1 = never
  const int copyAt = c.s.flag("monitor_continued_on_a_copy", 1, 3) ? static_cast<int>(c.s.i("copy_before_event", 0, std::max<int>(0, static_cast<int>(evs.size()) - 1))) : -1;
  if (copyAt >= 0) {c.label("monitor-continued-on-a-copy");}
  // the expected rate is given to the constructor / to initialize() on a default-constructed monitor / to initialize()
  // after another rate had been given first (nothing was fed in between)
  const size_t initBy = c.s.pick("monitor_initialised_by", {2, 1, 1});
  c.labelIf(initBy != 0, "monitor-default-constructed-then-initialize()");
  c.commit();

  // ------------------------------------------------ execution against the event-list model ----------------------
  std::unique_ptr<RateMonitoring> monHolder;
  if (initBy == 0) {
    monHolder.reset(new RateMonitoring(cfg.rate));
  } else {
    monHolder.reset(new RateMonitoring());
    if (initBy == 2) {monHolder->initialize(cfg.rate < 10 ? 150.0 : 1.0);}
    monHolder->initialize(cfg.rate);
  }
  CheckupEqualToRate ce(cfg.name, cfg.rate, cfg.eps);
  CheckupGreaterThanRate cg(cfg.name, cfg.rate, cfg.eps);

  std::vector<ll> stamps;
  double mRate = 0.0;          // model rate
  bool mZero = true;           // model rate is the literal 0
  ModelState state = NODATA;
  double libRatePrev = monHolder->getRate();
  c.check(libRatePrev == 0.0, vf::fmt("rate %.17g before any stamp, expected 0", libRatePrev));
  Snapshot prevE = snapshot(c, ce.getReport(), cfg, "initial(equal-to)");
  Snapshot prevG = snapshot(c, cg.getReport(), cfg, "initial(greater-than)");
  checkNoData(c, prevE, cfg, "initial(equal-to)");
  checkNoData(c, prevG, cfg, "initial(greater-than)");

  bool sawTimeout = false, stampAfterTimeout = false, recovered = false, hbBeforeData = false, irregular = false;
  bool notFull = false, repeatedTimeout = false, hbNoChange = false, gapExact = false, gapAbove = false, gapBelow = false;
  ll lastPeriodChangeAt = 0;   // index (1-based stamp count) of the latest stamp whose period differs from the previous one
  Seen seen;

  int idx = 0;
  for (const Ev & e : evs) {
    const std::string w = vf::fmt("event#%d(%s t=%lld)", idx++, e.data ? "stamp" : "heartbeat", e.t);
    const Duration d(e.t);
    if (idx - 1 == copyAt) {
      std::unique_ptr<RateMonitoring> copy(new RateMonitoring(*monHolder));
      monHolder = std::move(copy);
    }
    if (e.data) {
      c.check(stamps.empty() || e.t > stamps.back(), w + ": generator produced a non-increasing stamp");
      stamps.push_back(e.t);
      const ll k = static_cast<ll>(stamps.size());
      if (k >= 3 && (stamps[k - 1] - stamps[k - 2]) != (stamps[k - 2] - stamps[k - 3])) {lastPeriodChangeAt = k;}
      if (k <= cfg.W) {
        mRate = 0.0; mZero = true; notFull = true;
      } else {
        const ll span = stamps[k - 1] - stamps[k - 1 - cfg.W];
        mRate = static_cast<double>(static_cast<long double>(cfg.W) * 1e9L / static_cast<long double>(span));
        mZero = false;
        // window = periods k-W+1 .. k ; irregular if a period change lies strictly inside it
        if (lastPeriodChangeAt >= k - cfg.W + 2) {irregular = true;}
        if (sawTimeout) {recovered = true;}
      }
      if (sawTimeout) {stampAfterTimeout = true;}
      const double ret = monHolder->update(d);
      const double got = monHolder->getRate();
      c.check(ret == got, vf::fmt("%s: update returned %.17g but getRate() is %.17g", w.c_str(), ret, got));
      if (mZero) {
        c.check(got == 0.0, vf::fmt("%s: rate %.17g after %lld stamps with window %lld, expected 0 (window not full)", w.c_str(), got, k, cfg.W));
      } else {
        const double rel = std::fabs(got - mRate) / mRate;
        c.maxStat("rate-relative-residual", rel);
        c.check(rel <= RATE_TOL,
          vf::fmt("%s: rate %.17g, model W/span = %lld/%lld ns = %.17g (rel. %.3g)", w.c_str(), got, cfg.W,
          stamps[k - 1] - stamps[k - 1 - cfg.W], mRate, rel));
      }
      libRatePrev = got;
      state = EVAL;

      const DiagnosticStatus se = ce.evaluate(d);
      prevE = snapshot(c, ce.getReport(), cfg, w + " equal-to");
      c.check(se == prevE.status, vf::fmt("%s equal-to: evaluate returned %s, report holds %s", w.c_str(), statusName(se), statusName(prevE.status)));
      checkEval(c, prevE, cfg, true, mRate, mZero, w + " equal-to", seen);

      const DiagnosticStatus sg = cg.evaluate(d);
      prevG = snapshot(c, cg.getReport(), cfg, w + " greater-than");
      c.check(sg == prevG.status, vf::fmt("%s greater-than: evaluate returned %s, report holds %s", w.c_str(), statusName(sg), statusName(prevG.status)));
      checkEval(c, prevG, cfg, false, mRate, mZero, w + " greater-than", seen);
    } else {
      const bool expectTimeout = !stamps.empty() && (e.t - stamps.back()) > NS_HALF;
      if (stamps.empty()) {hbBeforeData = true;}
      if (!stamps.empty()) {
        const ll gap = e.t - stamps.back();
        if (gap == NS_HALF) {gapExact = true;}
        if (gap == NS_HALF + 1) {gapAbove = true;}
        if (gap == NS_HALF - 1) {gapBelow = true;}
      }
      const bool to = monHolder->timeout(d);
      c.check(to == expectTimeout,
        vf::fmt("%s: timeout() returned %d, expected %d (stamps so far %zu, silence %lld ns)", w.c_str(), to, expectTimeout,
        stamps.size(), stamps.empty() ? -1 : e.t - stamps.back()));
      const double got = monHolder->getRate();
      if (expectTimeout) {
        c.check(got == 0.0, vf::fmt("%s: rate %.17g after a timeout, expected 0", w.c_str(), got));
        mRate = 0.0; mZero = true;
        if (state == STALE) {repeatedTimeout = true;}
        state = STALE;
        sawTimeout = true;
      } else {
        c.check(got == libRatePrev, vf::fmt("%s: heart beat without timeout changed the rate from %.17g to %.17g", w.c_str(), libRatePrev, got));
        hbNoChange = true;
      }
      libRatePrev = got;

      const bool okE = ce.heartBeatCallback(d);
      const bool okG = cg.heartBeatCallback(d);
      c.check(okE == !expectTimeout, vf::fmt("%s equal-to: heartBeatCallback returned %d, expected %d", w.c_str(), okE, !expectTimeout));
      c.check(okG == !expectTimeout, vf::fmt("%s greater-than: heartBeatCallback returned %d, expected %d", w.c_str(), okG, !expectTimeout));
      Snapshot nowE = snapshot(c, ce.getReport(), cfg, w + " equal-to");
      Snapshot nowG = snapshot(c, cg.getReport(), cfg, w + " greater-than");
      if (state == NODATA) {
        checkNoData(c, nowE, cfg, w + " equal-to");
        checkNoData(c, nowG, cfg, w + " greater-than");
      } else if (state == STALE) {
        checkStale(c, nowE, cfg, w + " equal-to");
        checkStale(c, nowG, cfg, w + " greater-than");
      } else {
        // no timeout after a stamp: nothing may change (the previous report was checked against the model)
        c.check(nowE.status == prevE.status && nowE.message == prevE.message && nowE.value == prevE.value,
          vf::fmt("%s equal-to: heart beat without timeout changed the report to (%s,'%s','%s')", w.c_str(),
          statusName(nowE.status), nowE.message.c_str(), nowE.value.c_str()));
        c.check(nowG.status == prevG.status && nowG.message == prevG.message && nowG.value == prevG.value,
          vf::fmt("%s greater-than: heart beat without timeout changed the report to (%s,'%s','%s')", w.c_str(),
          statusName(nowG.status), nowG.message.c_str(), nowG.value.c_str()));
      }
      prevE = nowE; prevG = nowG;
    }
  }

  if (gapExact) {c.label("silence-exactly-0.5s");}
  if (gapAbove) {c.label("silence-0.5s+1ns");}
  if (gapBelow) {c.label("silence-0.5s-1ns");}
  if (notFull) {c.label("window-not-full");}
  if (irregular) {c.label("roll-over-irregular");}
  if (recovered) {c.label("recover-after-timeout");}
  if (hbBeforeData) {c.label("heartbeat-before-data");}
  if (sawTimeout) {c.label("timeout");}
  if (repeatedTimeout) {c.label("repeated-timeout-in-one-silence");}
  if (hbNoChange) {c.label("heartbeat-without-timeout");}
  if (static_cast<ll>(stamps.size()) > cfg.W) {c.label("window-full");}
  if (seen.verdicts & V_OK) {c.label("verdict-OK");}
  if (seen.verdicts & V_LOW) {c.label("verdict-too-low");}
  if (seen.verdicts & V_HIGH) {c.label("verdict-too-high");}
  if (seen.verdicts == (V_OK | V_LOW | V_HIGH)) {c.label("all-three-verdicts-in-one-history");}
  if (seen.ambiguous) {c.label("boundary-ambiguous");}
  if (seen.printBoundary) {c.label("value-string-on-print-rounding-boundary");}
  c.nontrivial(static_cast<ll>(stamps.size()) >= cfg.W + 2 && stampAfterTimeout);
}

const std::vector<vf::Sub> kSubs = {
  {"history", history,
    "expected rate in [0.5,200] Hz (integer, k/16, k/10, k/16 in [2,32] where the window is unclamped, below the lower window clamp 2r<4, above the upper clamp 2r>64); tolerance 0, "
    "rate/8, rate/64, k/16 or >= rate; first stamp at 0, within 2 s, epoch-like (1.7e18 ns) or anywhere up to 2e18 ns; one increasing "
    "integer-nanosecond timeline of 1..500 events built from segments: steady (nominal period, nominal scaled so that the rate lands next "
    "to a threshold, log-uniform 1 us..10 s, extremes 1 us / 0.5 s-1ns / 0.5 s / 0.5 s+1ns / 10 s), jittered (+-0.1 % .. +-50 %), bursts "
    "(1..100 us), irregular (every period log-uniform), silences with 1..4 heart beats 0.5 s -3..+3 ns / inside / beyond (to 10 s) / "
    "repeated, and data interleaved with heart beats inside the period; heart beats may precede the first stamp. RateMonitoring, "
    "CheckupEqualToRate and CheckupGreaterThanRate are all run on the same events. Non-trivial: at least W+2 stamps and a timeout "
    "followed by further stamps."},
};

}  // namespace

VF_HARNESS(kSubs)
