// C11 - pose / position / twist conversions keep means and covariances consistent; SE(3) action on poses;
//       uncertainty ellipse of a planar covariance
#include "vf_main.hpp"

#include <Eigen/Eigenvalues>
#include <Eigen/Geometry>
#include <Eigen/QR>
#include <type_traits>
#include "romea_core_common/geometry/Ellipse.hpp"
#include "romea_core_common/geometry/Pose2D.hpp"
#include "romea_core_common/geometry/Pose3D.hpp"
#include "romea_core_common/geometry/PoseAndTwist2D.hpp"
#include "romea_core_common/geometry/PoseAndTwist3D.hpp"
#include "romea_core_common/geometry/Position2D.hpp"
#include "romea_core_common/geometry/Position3D.hpp"
#include "romea_core_common/geometry/Twist2D.hpp"
#include "romea_core_common/geometry/Twist3D.hpp"
#include "romea_core_common/math/Matrix.hpp"

namespace rc_ = romea::core;

namespace {

typedef long double LD;
const double PI = 3.14159265358979323846;
const double HALF_PI = PI / 2;
const double PITCH_MAX = HALF_PI - 1e-3;   // quantifier: attitude at least 1e-3 rad away from gimbal lock
const double XMAX = 1e4;                   // quantifier: components in [-1e4, 1e4]
const double EPS = 2.220446049250313e-16;
const int IDX[3] = {0, 1, 5};              // planar components (x, y, yaw) inside a 6-vector

const double TOL_ROT = 1e-9;        // attitudes compared as rotations (max entry difference), DESIGN.md C11
const double C_POS = 64;            // transformed position: C_POS * eps * (|p| + |T| (+|T2|))
const double TOL_ELLIPSE = 1e-12;   // ellipse reconstruction, relative to the largest entry of the xy covariance
const double C_PSD = 64;            // smallest eigenvalue >= -C_PSD * eps_S * largest eigenvalue

// oracle check with lazily built message (the message is only formatted when the check fails)
#define CHECK(cond, msg) do {if (!(cond)) {c.fail(msg);}} while (0)

// ---------------------------------------------------------------------------------------------
// references written in the harness
// ---------------------------------------------------------------------------------------------
struct M3
{
  LD m[3][3];
};

M3 mul(const M3 & a, const M3 & b)
{
  M3 r;
  for (int i = 0; i < 3; ++i) {
    for (int j = 0; j < 3; ++j) {
      LD s = 0;
      for (int k = 0; k < 3; ++k) {s += a.m[i][k] * b.m[k][j];}
      r.m[i][j] = s;
    }
  }
  return r;
}

M3 transpose(const M3 & a)
{
  M3 r;
  for (int i = 0; i < 3; ++i) {for (int j = 0; j < 3; ++j) {r.m[i][j] = a.m[j][i];}}
  return r;
}

M3 refRx(LD a) {LD c = cosl(a), s = sinl(a); return M3{{{1, 0, 0}, {0, c, -s}, {0, s, c}}};}
M3 refRy(LD a) {LD c = cosl(a), s = sinl(a); return M3{{{c, 0, s}, {0, 1, 0}, {-s, 0, c}}};}
M3 refRz(LD a) {LD c = cosl(a), s = sinl(a); return M3{{{c, -s, 0}, {s, c, 0}, {0, 0, 1}}};}
// attitude (roll, pitch, yaw) as a rotation: Rz(yaw) * Ry(pitch) * Rx(roll)
M3 refZYX(const Eigen::Vector3d & a) {return mul(refRz(a[2]), mul(refRy(a[1]), refRx(a[0])));}

M3 fromEigen(const Eigen::Matrix3d & R)
{
  M3 r;
  for (int i = 0; i < 3; ++i) {for (int j = 0; j < 3; ++j) {r.m[i][j] = R(i, j);}}
  return r;
}

Eigen::Matrix3d toEigen(const M3 & a)
{
  Eigen::Matrix3d R;
  for (int i = 0; i < 3; ++i) {for (int j = 0; j < 3; ++j) {R(i, j) = static_cast<double>(a.m[i][j]);}}
  return R;
}

double maxDiff(const M3 & a, const M3 & b)
{
  double d = 0;
  for (int i = 0; i < 3; ++i) {
    for (int j = 0; j < 3; ++j) {
      double e = static_cast<double>(fabsl(a.m[i][j] - b.m[i][j]));
      if (!(e <= d)) {d = e;}   // NaN propagates
    }
  }
  return d;
}

// R p + t in long double
void refApply(const M3 & R, const Eigen::Vector3d & p, const Eigen::Vector3d & t, LD out[3])
{
  for (int i = 0; i < 3; ++i) {
    out[i] = static_cast<LD>(t[i]);
    for (int k = 0; k < 3; ++k) {out[i] += R.m[i][k] * static_cast<LD>(p[k]);}
  }
}

double posDiff(const Eigen::Vector3d & p, const LD ref[3])
{
  double d = 0;
  for (int i = 0; i < 3; ++i) {
    double e = static_cast<double>(fabsl(static_cast<LD>(p[i]) - ref[i]));
    if (!(e <= d)) {d = e;}
  }
  return d;
}

// ---------------------------------------------------------------------------------------------
// generators
// ---------------------------------------------------------------------------------------------
struct CovInfo
{
  bool rankDeficient = false;
  bool rotated = false;      // non-zero off-diagonal entries
  double lmax = 0;
};

// symmetric positive semi-definite N x N: Q diag(lambda) Q^T, condition number of the non-zero part < 1e8,
// optionally rank-deficient (exact zero eigenvalues); exactly symmetric
Eigen::MatrixXd genCovX(vf::Ctx & c, int N, CovInfo & info)
{
  typedef Eigen::MatrixXd Mat;
  size_t kind = c.s.pick("cov_kind", {1, 4, 2});      // 0 diagonal full rank, 1 rotated full rank, 2 rotated rank-deficient
  double lmax = c.s.rlog("cov_lmax", 1e-6, 1e6);
  double cond = std::min(c.s.rlog("cov_cond", 1.0, 1e8), 0.99e8);
  int nzero = (kind == 2) ? static_cast<int>(c.s.i("cov_nzero", 1, N - 1)) : 0;
  uint64_t seed = c.s.seed("cov_seed");
  vf::Rng rng(seed);
  Eigen::VectorXd lam(N);
  const int nz = N - nzero;   // number of non-zero eigenvalues
  for (int k = 0; k < N; ++k) {
    if (k >= nz) {lam[k] = 0;} else if (k == 0) {lam[k] = lmax;} else if (k == nz - 1) {lam[k] = lmax / cond;} else {
      lam[k] = lmax * std::pow(cond, -rng.u());
    }
  }
  // random position of the eigenvalues on the diagonal
  for (int k = N - 1; k > 0; --k) {std::swap(lam[k], lam[static_cast<int>(rng.below(k + 1))]);}
  Mat C(N, N);
  if (kind == 0) {
    C = lam.asDiagonal();
  } else {
    Mat G(N, N);
    for (int i = 0; i < N; ++i) {for (int j = 0; j < N; ++j) {G(i, j) = rng.gauss();}}
    Mat Q = Eigen::HouseholderQR<Mat>(G).householderQ();
    Mat M = Q * lam.asDiagonal() * Q.transpose();
    C = 0.5 * (M + M.transpose());
  }
  info.rankDeficient = nzero > 0;
  info.rotated = kind != 0;
  info.lmax = lmax;
  return C;
}

template<int N>
Eigen::Matrix<double, N, N> genCov(vf::Ctx & c, CovInfo & info)
{
  Eigen::Matrix<double, N, N> C = genCovX(c, N, info);
  return C;
}

Eigen::Vector3d genVec(vf::Ctx & c, const char * nx, const char * ny, const char * nz)
{
  // over the whole range / small (1e-15 .. 1 per component, either sign): a quantity that is nearly but not exactly zero
  if (c.s.pick("vec_magnitude_class", {5, 1}) == 1) {
    c.label("vector-with-small-components(1e-15..1)");
    Eigen::Vector3d v;
    for (int d = 0; d < 3; ++d) {v[d] = (c.s.flag("vec_small_negative") ? -1.0 : 1.0) * std::pow(10.0, -c.s.uni("vec_small_exp", 0.0, 15.0));}
    return v;
  }
  return Eigen::Vector3d(c.s.r(nx, -XMAX, XMAX), c.s.r(ny, -XMAX, XMAX), c.s.r(nz, -XMAX, XMAX));
}

// attitude: roll, yaw in [-pi, pi], |pitch| <= pi/2 - 1e-3 (packed at the margin with weight 1/4)
Eigen::Vector3d genAttitude(vf::Ctx & c, const char * nr, const char * npc, const char * npu, const char * np, const char * ny, bool & nearGimbal,
  bool anyWriting = false)
{
  double roll = c.s.r(nr, -PI, PI);
  double pitch;
  size_t pc = anyWriting ? c.s.pick(npc, {3, 1, 1}) : c.s.pick(npc, {3, 1});
  if (pc == 0) {pitch = c.s.r(np, -PITCH_MAX, PITCH_MAX);} else if (pc == 1) {
    bool up = c.s.flag(npu);
    pitch = c.s.near(np, up ? PITCH_MAX : -PITCH_MAX, 3.0, 15.0, -PITCH_MAX, PITCH_MAX);
  } else {
    // an attitude written with the pitch outside the principal range (cos(pitch) < 0): still 1e-3 rad away from
    // gimbal lock, still a component in [-1e4, 1e4]; a given pose may be written this way
    pitch = c.s.r(np, -PITCH_MAX, PITCH_MAX) + (c.s.flag(npu) ? PI : -PI);
    c.label("pitch-outside-principal-range");
  }
  double yaw = c.s.r(ny, -PI, PI);
  nearGimbal = nearGimbal || std::fabs(pitch) > PITCH_MAX - 1e-3;
  return Eigen::Vector3d(roll, pitch, yaw);
}

double minEigX(const Eigen::MatrixXd & M)
{
  Eigen::SelfAdjointEigenSolver<Eigen::MatrixXd> es(M, Eigen::EigenvaluesOnly);
  return es.eigenvalues().minCoeff();
}

template<typename Mat>
double minEig(const Mat & M)
{
  Eigen::MatrixXd X = M.template cast<double>();
  return minEigX(X);
}

template<typename Mat>
bool exactlySymmetric(const Mat & M)
{
  for (int i = 0; i < M.rows(); ++i) {for (int j = 0; j < i; ++j) {if (!(M(i, j) == M(j, i))) {return false;}}}
  return true;
}

// ---------------------------------------------------------------------------------------------
// (1) 3D -> 2D reductions copy exactly the planar components
// ---------------------------------------------------------------------------------------------
void checkSe2Selection(vf::Ctx & c, const Eigen::Matrix3d & got, const Eigen::Matrix6d & from, const char * what)
{
  for (int i = 0; i < 3; ++i) {
    for (int j = 0; j < 3; ++j) {
      CHECK(got(i, j) == from(IDX[i], IDX[j]), vf::fmt("%s: covariance(%d,%d) = %.17g, expected the 6x6 entry (%d,%d) = %.17g",
        what, i, j, got(i, j), IDX[i], IDX[j], from(IDX[i], IDX[j])));
    }
  }
}

void checkPose2D(vf::Ctx & c, const rc_::Pose2D & got, const rc_::Pose3D & from, const char * what)
{
  CHECK(got.position.x() == from.position.x() && got.position.y() == from.position.y(),
    vf::fmt("%s: position (%.17g, %.17g), expected (%.17g, %.17g)", what, got.position.x(), got.position.y(), from.position.x(), from.position.y()));
  CHECK(got.yaw == from.orientation.z(), vf::fmt("%s: yaw %.17g, expected orientation.z = %.17g (roll %.17g, pitch %.17g)",
    what, got.yaw, from.orientation.z(), from.orientation.x(), from.orientation.y()));
  checkSe2Selection(c, got.covariance, from.covariance, what);
}

void checkTwist2D(vf::Ctx & c, const rc_::Twist2D & got, const rc_::Twist3D & from, const char * what)
{
  CHECK(got.linearSpeeds.x() == from.linearSpeeds.x() && got.linearSpeeds.y() == from.linearSpeeds.y(),
    vf::fmt("%s: linear speeds (%.17g, %.17g), expected (%.17g, %.17g)", what, got.linearSpeeds.x(), got.linearSpeeds.y(),
    from.linearSpeeds.x(), from.linearSpeeds.y()));
  CHECK(got.angularSpeed == from.angularSpeeds.z(), vf::fmt("%s: angular speed %.17g, expected angularSpeeds.z = %.17g (x %.17g, y %.17g)",
    what, got.angularSpeed, from.angularSpeeds.z(), from.angularSpeeds.x(), from.angularSpeeds.y()));
  checkSe2Selection(c, got.covariance, from.covariance, what);
}

void poison(rc_::Pose2D & p)
{
  p.yaw = NAN; p.position.setConstant(NAN); p.covariance.setConstant(NAN);
}

void poison(rc_::Twist2D & t)
{
  t.angularSpeed = NAN; t.linearSpeeds.setConstant(NAN); t.covariance.setConstant(NAN);
}

void checkPsdPreserved(vf::Ctx & c, const Eigen::Matrix3d & red, double lmax, const char * what)
{
  CHECK(exactlySymmetric(red), vf::fmt("%s: reduced covariance of a symmetric covariance is not symmetric", what));
  double me = minEig(red);
  c.maxStat("reduced covariance: -min eigenvalue / (eps*lambda_max)", std::max(0.0, -me / (EPS * lmax)));
  CHECK(me >= -C_PSD * EPS * lmax, vf::fmt("%s: reduced covariance of a PSD covariance has eigenvalue %.3g (lambda_max %.3g)", what, me, lmax));
}

void reduction(vf::Ctx & c)
{
  rc_::PoseAndTwist3D pt;
  bool ng = false;
  pt.pose.position = genVec(c, "px", "py", "pz");
  pt.pose.orientation = genAttitude(c, "roll", "pitch_class", "pitch_up", "pitch", "yaw", ng, true);
  CovInfo ci1, ci2;
  pt.pose.covariance = genCov<6>(c, ci1);
  pt.twist.linearSpeeds = genVec(c, "vx", "vy", "vz");
  pt.twist.angularSpeeds = genVec(c, "wx", "wy", "wz");
  pt.twist.covariance = genCov<6>(c, ci2);
  // a mean that is exactly zero still carries its covariance: platform at rest / at the origin of the frame
  const size_t zeroMean = c.s.pick("zero_mean", {6, 1, 1, 1});
  if (zeroMean == 1 || zeroMean == 3) {pt.twist.linearSpeeds.setZero(); pt.twist.angularSpeeds.setZero(); c.label("twist-with-zero-mean");}
  if (zeroMean == 2 || zeroMean == 3) {pt.pose.position.setZero(); pt.pose.orientation.setZero(); c.label("pose-with-zero-mean");}
  c.nontrivial(ci1.rotated || ci2.rotated);
  c.labelIf(ci1.rankDeficient || ci2.rankDeficient, "rank-deficient");
  c.labelIf(ci1.rotated || ci2.rotated, "rotated");
  c.labelIf(!ci1.rotated && !ci2.rotated, "diagonal");
  c.commit();

  const rc_::Pose3D & pose = pt.pose;
  const rc_::Twist3D & twist = pt.twist;
  // pose -> planar pose, both overloads
  rc_::Pose2D p2 = rc_::toPose2D(pose);
  checkPose2D(c, p2, pose, "toPose2D(pose)");
  rc_::Pose2D p2b;
  poison(p2b);
  rc_::toPose2D(pose, p2b);
  checkPose2D(c, p2b, pose, "toPose2D(pose, out)");
  checkPsdPreserved(c, p2.covariance, ci1.lmax, "toPose2D");
  // pose -> position, both overloads
  rc_::Position3D q3 = rc_::toPosition3D(pose);
  rc_::Position3D q3b;
  q3b.position.setConstant(NAN); q3b.covariance.setConstant(NAN);
  rc_::toPosition3D(pose, q3b);
  for (const rc_::Position3D * q : {&q3, &q3b}) {
    CHECK(q->position == pose.position, vf::fmt("toPosition3D: position (%.17g, %.17g, %.17g), expected (%.17g, %.17g, %.17g)",
      q->position.x(), q->position.y(), q->position.z(), pose.position.x(), pose.position.y(), pose.position.z()));
    for (int i = 0; i < 3; ++i) {
      for (int j = 0; j < 3; ++j) {
        CHECK(q->covariance(i, j) == pose.covariance(i, j), vf::fmt("toPosition3D: covariance(%d,%d) = %.17g, expected the pose covariance entry %.17g",
          i, j, q->covariance(i, j), pose.covariance(i, j)));
      }
    }
  }
  checkPsdPreserved(c, q3.covariance, ci1.lmax, "toPosition3D");
  // twist -> planar twist, both overloads
  rc_::Twist2D t2 = rc_::toTwist2D(twist);
  checkTwist2D(c, t2, twist, "toTwist2D(twist)");
  rc_::Twist2D t2b;
  poison(t2b);
  rc_::toTwist2D(twist, t2b);
  checkTwist2D(c, t2b, twist, "toTwist2D(twist, out)");
  checkPsdPreserved(c, t2.covariance, ci2.lmax, "toTwist2D");
  // pose and twist
  rc_::PoseAndTwist2D pt2 = rc_::toPoseAndTwist2D(pt);
  checkPose2D(c, pt2.pose, pose, "toPoseAndTwist2D(pt).pose");
  checkTwist2D(c, pt2.twist, twist, "toPoseAndTwist2D(pt).twist");
  rc_::PoseAndTwist2D pt2b;
  poison(pt2b.pose); poison(pt2b.twist);
  rc_::toPoseAndTwist2D(pt, pt2b);
  checkPose2D(c, pt2b.pose, pose, "toPoseAndTwist2D(pt, out).pose");
  checkTwist2D(c, pt2b.twist, twist, "toPoseAndTwist2D(pt, out).twist");
}

// ---------------------------------------------------------------------------------------------
// (2) 3x3 <-> 6x6 covariance embedding
// ---------------------------------------------------------------------------------------------
template<typename S>
void embeddingBody(vf::Ctx & c, const Eigen::Matrix3d & C3d, const Eigen::Matrix6d & C6d, double lmax3, double lmax6)
{
  typedef Eigen::Matrix<S, 3, 3> Mat3;
  typedef Eigen::Matrix<S, 6, 6> Mat6;
  const double e = vf::epsOf<S>();
  const Mat3 C3 = C3d.cast<S>();
  const Mat6 C6 = C6d.cast<S>();
  auto planar = [](int i) {return i == 0 ? 0 : (i == 1 ? 1 : (i == 5 ? 2 : -1));};

  Mat6 E = rc_::toSe3Covariance(C3);
  for (int i = 0; i < 6; ++i) {
    for (int j = 0; j < 6; ++j) {
      int pi = planar(i), pj = planar(j);
      if (pi >= 0 && pj >= 0) {
        CHECK(E(i, j) == C3(pi, pj), vf::fmt("toSe3Covariance: entry (%d,%d) = %.17g, expected the 3x3 entry (%d,%d) = %.17g",
          i, j, static_cast<double>(E(i, j)), pi, pj, static_cast<double>(C3(pi, pj))));
      } else {
        CHECK(E(i, j) == S(0), vf::fmt("toSe3Covariance: entry (%d,%d) = %.17g, expected 0", i, j, static_cast<double>(E(i, j))));
      }
    }
  }
  Mat3 back = rc_::toSe2Covariance(E);
  for (int i = 0; i < 3; ++i) {
    for (int j = 0; j < 3; ++j) {
      CHECK(back(i, j) == C3(i, j), vf::fmt("toSe2Covariance(toSe3Covariance(C)): entry (%d,%d) = %.17g, expected %.17g",
        i, j, static_cast<double>(back(i, j)), static_cast<double>(C3(i, j))));
    }
  }
  CHECK(exactlySymmetric(E), "toSe3Covariance of a symmetric matrix is not symmetric");
  double me = minEig(E), me0 = std::min(0.0, minEig(C3));
  CHECK(me >= me0 - C_PSD * e * lmax3, vf::fmt("toSe3Covariance of a PSD matrix has eigenvalue %.3g (input min %.3g, lambda_max %.3g)", me, me0, lmax3));

  Mat3 R = rc_::toSe2Covariance(C6);
  for (int i = 0; i < 3; ++i) {
    for (int j = 0; j < 3; ++j) {
      CHECK(R(i, j) == C6(IDX[i], IDX[j]), vf::fmt("toSe2Covariance: entry (%d,%d) = %.17g, expected the 6x6 entry (%d,%d) = %.17g",
        i, j, static_cast<double>(R(i, j)), IDX[i], IDX[j], static_cast<double>(C6(IDX[i], IDX[j]))));
    }
  }
  CHECK(exactlySymmetric(R), "toSe2Covariance of a symmetric matrix is not symmetric");
  double mr = minEig(R), mr0 = std::min(0.0, minEig(C6));
  CHECK(mr >= mr0 - C_PSD * e * lmax6, vf::fmt("toSe2Covariance of a PSD matrix has eigenvalue %.3g (input min %.3g, lambda_max %.3g)", mr, mr0, lmax6));
  Mat6 E2 = rc_::toSe3Covariance(R);
  for (int i = 0; i < 6; ++i) {
    for (int j = 0; j < 6; ++j) {
      int pi = planar(i), pj = planar(j);
      S want = (pi >= 0 && pj >= 0) ? C6(i, j) : S(0);
      CHECK(E2(i, j) == want, vf::fmt("toSe3Covariance(toSe2Covariance(C6)): entry (%d,%d) = %.17g, expected %.17g",
        i, j, static_cast<double>(E2(i, j)), static_cast<double>(want)));
    }
  }
}

void embedding(vf::Ctx & c)
{
  bool isF = c.s.pick("scalar", {1, 1}) == 1;
  CovInfo c3, c6;
  Eigen::Matrix3d C3 = genCov<3>(c, c3);
  Eigen::Matrix6d C6 = genCov<6>(c, c6);
  c.label(isF ? "float" : "double");
  c.nontrivial(c3.rotated && c6.rotated);
  c.labelIf(c3.rankDeficient || c6.rankDeficient, "rank-deficient");
  c.labelIf(c3.rotated && c6.rotated, "rotated");
  c.commit();
  if (isF) {embeddingBody<float>(c, C3, C6, c3.lmax, c6.lmax);} else {embeddingBody<double>(c, C3, C6, c3.lmax, c6.lmax);}
}

// ---------------------------------------------------------------------------------------------
// (3) operator*(Affine3d, Pose3D) is the SE(3) action on position and attitude
// ---------------------------------------------------------------------------------------------
void checkActed(
  vf::Ctx & c, const rc_::Pose3D & got, const M3 & Rwant, const LD pwant[3], double scale, const char * what,
  const char * statPos, const char * statRot)
{
  CHECK(got.position.allFinite() && got.orientation.allFinite(), vf::fmt("%s: non-finite position or orientation (%.17g, %.17g, %.17g)",
    what, got.orientation[0], got.orientation[1], got.orientation[2]));
  double dp = posDiff(got.position, pwant);
  c.maxStat(statPos, dp / (EPS * scale));
  CHECK(dp <= C_POS * EPS * scale, vf::fmt("%s: position (%.17g, %.17g, %.17g) differs from R p + T = (%.17g, %.17g, %.17g) by %.3g (tolerance %.3g)",
    what, got.position[0], got.position[1], got.position[2], static_cast<double>(pwant[0]), static_cast<double>(pwant[1]),
    static_cast<double>(pwant[2]), dp, C_POS * EPS * scale));
  double dr = maxDiff(refZYX(got.orientation), Rwant);
  c.maxStat(statRot, dr);
  CHECK(dr <= TOL_ROT, vf::fmt("%s: attitude (%.17g, %.17g, %.17g) as a rotation differs from R * R(pose) by %.3g (tolerance %.3g)",
    what, got.orientation[0], got.orientation[1], got.orientation[2], dr, TOL_ROT));
}

void se3Action(vf::Ctx & c)
{
  // attitudes before / after the first / after the second transform are drawn; the rotations are derived from them
  bool ng = false;
  size_t mode = c.s.pick("mode", {1, 6, 2});   // 0: first transform is the identity; 2: it is almost the identity
  Eigen::Vector3d p = genVec(c, "px", "py", "pz");
  Eigen::Vector3d A0 = genAttitude(c, "roll0", "pitch0_class", "pitch0_up", "pitch0", "yaw0", ng);
  Eigen::Vector3d A1 = A0, t1 = Eigen::Vector3d::Zero();
  if (mode == 2) {
    // a rotation of 1e-5 .. 1e-12 rad (its cosine rounds to 1, its sine does not), no translation or a small one
    double mag = std::pow(10.0, -c.s.uni("tiny_rotation_exp", 5.0, 12.0));
    A1 = A0 + mag * Eigen::Vector3d(c.s.uni("tiny_dx", -1, 1), c.s.uni("tiny_dy", -1, 1), c.s.uni("tiny_dz", -1, 1));
    if (std::fabs(A1[1]) > PITCH_MAX) {A1[1] = A0[1];}
    if (c.s.flag("tiny_with_translation")) {t1 = genVec(c, "t1x", "t1y", "t1z");}
    c.label("first-transform-almost-identity");
  } else if (mode != 0) {
    A1 = genAttitude(c, "roll1", "pitch1_class", "pitch1_up", "pitch1", "yaw1", ng);
    t1 = genVec(c, "t1x", "t1y", "t1z");
  }
  Eigen::Vector3d A2 = genAttitude(c, "roll2", "pitch2_class", "pitch2_up", "pitch2", "yaw2", ng);
  Eigen::Vector3d t2 = genVec(c, "t2x", "t2y", "t2z");
  CovInfo ci;
  Eigen::Matrix6d cov = genCov<6>(c, ci);
  c.nontrivial(mode != 0 && ci.rotated);
  c.labelIf(mode == 0, "identity-transform");
  c.labelIf(ng, "near-gimbal");
  c.labelIf(ci.rankDeficient, "rank-deficient");
  c.labelIf(ci.rotated, "rotated");
  c.commit();

  rc_::Pose3D pose;
  pose.position = p; pose.orientation = A0; pose.covariance = cov;
  const M3 RA0 = refZYX(A0), RA1 = refZYX(A1), RA2 = refZYX(A2);
  // rigid transforms handed to the library (entries rounded to double)
  Eigen::Affine3d T1 = Eigen::Affine3d::Identity();
  if (mode != 0) {T1.linear() = toEigen(mul(RA1, transpose(RA0))); T1.translation() = t1;}
  Eigen::Affine3d T2 = Eigen::Affine3d::Identity();
  T2.linear() = toEigen(mul(RA2, transpose(RA1)));
  T2.translation() = t2;
  const M3 R1 = fromEigen(T1.linear()), R2 = fromEigen(T2.linear());

  // identity is neutral
  {
    rc_::Pose3D r = Eigen::Affine3d::Identity() * pose;
    LD pw[3] = {p[0], p[1], p[2]};
    checkActed(c, r, RA0, pw, p.norm() + 1e-300, "identity * pose", "identity: position residual /(eps*|p|)", "identity: attitude residual");
  }
  // single action
  LD p1[3];
  refApply(R1, p, t1, p1);
  const M3 W1 = mul(R1, RA0);
  rc_::Pose3D r1 = T1 * pose;
  checkActed(c, r1, W1, p1, p.norm() + t1.norm() + 1e-300, "T1 * pose", "action: position residual /(eps*(|p|+|T|))", "action: attitude residual");
  // composition: (T2 T1) pose = T2 (T1 pose), and both equal the reference
  Eigen::Vector3d p1d(static_cast<double>(p1[0]), static_cast<double>(p1[1]), static_cast<double>(p1[2]));
  LD p2[3];
  refApply(R2, p1d, t2, p2);
  const M3 W2 = mul(R2, W1);
  const double sc2 = p.norm() + t1.norm() + t2.norm() + 1e-300;
  rc_::Pose3D r21 = T2 * r1;
  rc_::Pose3D r12 = (T2 * T1) * pose;
  checkActed(c, r21, W2, p2, sc2, "T2 * (T1 * pose)", "composition: position residual /(eps*(|p|+|T1|+|T2|))", "composition: attitude residual");
  checkActed(c, r12, W2, p2, sc2, "(T2 * T1) * pose", "composition: position residual /(eps*(|p|+|T1|+|T2|))", "composition: attitude residual");
  double dpp = (r12.position - r21.position).cwiseAbs().maxCoeff();
  CHECK(dpp <= 2 * C_POS * EPS * sc2, vf::fmt("(T2*T1)*pose and T2*(T1*pose) give positions %.3g apart", dpp));
  double drr = maxDiff(refZYX(r12.orientation), refZYX(r21.orientation));
  CHECK(drr <= TOL_ROT, vf::fmt("(T2*T1)*pose and T2*(T1*pose) give attitudes %.3g apart (as rotations)", drr));
}

// ---------------------------------------------------------------------------------------------
// (4) uncertainty ellipse
// ---------------------------------------------------------------------------------------------
void checkEllipse(vf::Ctx & c, const rc_::Ellipse & el, const Eigen::Vector2d & centre, const Eigen::Matrix2d & Cxy, double sigma, const char * what)
{
  const double a = el.getMajorRadius(), b = el.getMinorRadius(), th = el.getOrientation();
  CHECK(el.getCenterPosition() == centre, vf::fmt("%s: centre (%.17g, %.17g), expected (%.17g, %.17g)", what,
    el.getCenterPosition().x(), el.getCenterPosition().y(), centre.x(), centre.y()));
  CHECK(std::isfinite(a) && std::isfinite(b) && std::isfinite(th), vf::fmt("%s: non-finite ellipse (major %.17g, minor %.17g, orientation %.17g)", what, a, b, th));
  CHECK(a >= b && b >= 0, vf::fmt("%s: major %.17g, minor %.17g violate major >= minor >= 0", what, a, b));
  const LD cs = cosl(th), sn = sinl(th);
  const LD A = static_cast<LD>(a) * a / (static_cast<LD>(sigma) * sigma), B = static_cast<LD>(b) * b / (static_cast<LD>(sigma) * sigma);
  const LD M[2][2] = {{A * cs * cs + B * sn * sn, (A - B) * cs * sn}, {(A - B) * cs * sn, A * sn * sn + B * cs * cs}};
  const double nrm = Cxy.cwiseAbs().maxCoeff();
  double d = 0;
  for (int i = 0; i < 2; ++i) {
    for (int j = 0; j < 2; ++j) {
      double e = static_cast<double>(fabsl(M[i][j] - static_cast<LD>(Cxy(i, j))));
      if (!(e <= d)) {d = e;}
    }
  }
  if (nrm > 0) {c.maxStat("ellipse reconstruction residual / max|C_xy|", d / nrm);}
  CHECK(d <= TOL_ELLIPSE * nrm, vf::fmt("%s: R(theta) diag(major^2, minor^2) R(theta)^T / sigma^2 differs from the xy covariance [[%.17g, %.17g], [%.17g, %.17g]] by %.3g "
    "(tolerance %.3g); major %.17g minor %.17g orientation %.17g sigma %.17g", what, Cxy(0, 0), Cxy(0, 1), Cxy(1, 0), Cxy(1, 1), d, TOL_ELLIPSE * nrm, a, b, th, sigma));
}

void ellipse(vf::Ctx & c)
{
  size_t kind = c.s.pick("object", {1, 1});   // 0 Position2D (2x2), 1 Pose2D (xy block of a 3x3)
  Eigen::Vector2d centre(c.s.r("cx", -XMAX, XMAX), c.s.r("cy", -XMAX, XMAX));
  size_t sk = c.s.pick("sigma_class", {1, 3, 1});
  double sigma = (sk == 0) ? 1.0 : (sk == 1 ? c.s.rlog("sigma", 1e-3, 10.0) : 10.0);
  Eigen::Matrix2d C2 = Eigen::Matrix2d::Zero();
  Eigen::Matrix3d C3 = Eigen::Matrix3d::Zero();
  bool rankDef = false, rotated = false, iso = false;
  double yaw = 0;
  if (kind == 0) {
    size_t ck = c.s.pick("cov2_kind", {1, 5, 2, 1});   // 0 axis-aligned, 1 rotated full rank, 2 rotated rank one, 3 isotropic
    double lmax = c.s.rlog("cov_lmax", 1e-6, 1e6);
    double cond = std::min(c.s.rlog("cov_cond", 1.0, 1e8), 0.99e8);
    double th = 0;
    if (ck == 1 || ck == 2) {
      size_t tk = c.s.pick("theta_class", {3, 1});
      th = (tk == 0) ? c.s.r("theta", -PI, PI) : c.s.near("theta", static_cast<double>(c.s.i("theta_k", -4, 4)) * (PI / 4), 2.0, 15.0, -PI, PI);
    }
    bool swap = (ck == 0) ? c.s.flag("major_on_y") : false;
    LD l1 = lmax, l2 = (ck == 2) ? 0.0L : (ck == 3 ? static_cast<LD>(lmax) : static_cast<LD>(lmax) / cond);
    if (swap) {std::swap(l1, l2);}
    LD cs = cosl(th), sn = sinl(th);
    C2(0, 0) = static_cast<double>(l1 * cs * cs + l2 * sn * sn);
    C2(1, 1) = static_cast<double>(l1 * sn * sn + l2 * cs * cs);
    C2(0, 1) = C2(1, 0) = static_cast<double>((l1 - l2) * cs * sn);
    rankDef = ck == 2;
    rotated = C2(0, 1) != 0;
    iso = ck == 3;
  } else {
    CovInfo ci;
    C3 = genCov<3>(c, ci);
    yaw = c.s.r("yaw", -PI, PI);
    rankDef = ci.rankDeficient;
    rotated = C3(0, 1) != 0;
  }
  c.nontrivial(rotated);
  c.label(kind == 0 ? "Position2D" : "Pose2D");
  c.labelIf(rankDef, "rank-deficient");
  c.labelIf(rotated, "rotated");
  c.labelIf(iso, "isotropic");
  c.labelIf(sigma != 1.0, "sigma!=1");
  c.commit();

  if (kind == 0) {
    rc_::Position2D q;
    q.position = centre; q.covariance = C2;
    checkEllipse(c, rc_::uncertaintyEllipse(q, sigma), centre, C2, sigma, "uncertaintyEllipse(Position2D)");
    checkEllipse(c, rc_::Ellipse(centre, C2, sigma), centre, C2, sigma, "Ellipse(centre, covariance, sigma)");
  } else {
    rc_::Pose2D q;
    q.position = centre; q.yaw = yaw; q.covariance = C3;
    Eigen::Matrix2d Cxy = C3.block<2, 2>(0, 0);
    checkEllipse(c, rc_::uncertaintyEllipse(q, sigma), centre, Cxy, sigma, "uncertaintyEllipse(Pose2D)");
  }
}

const std::vector<vf::Sub> kSubs = {
  {"reduction", reduction,
    "pose-and-twist with position / linear / angular components boundary-biased in [-1e4,1e4], roll and yaw in [-pi,pi], |pitch| <= pi/2-1e-3; "
    "two 6x6 covariances Q diag(lambda) Q^T (lambda_max log-uniform in [1e-6,1e6], condition < 1e8, diagonal / rotated / rotated with 1..5 exact "
    "zero eigenvalues; Q from a Householder QR of a seeded Gaussian matrix), exactly symmetric. Non-trivial: a covariance has non-zero "
    "off-diagonal entries."},
  {"embedding", embedding,
    "one 3x3 and one 6x6 covariance from the same generator, float or double (cast entry-wise). Non-trivial: both have non-zero "
    "off-diagonal entries."},
  {"se3_action", se3Action,
    "pose position in [-1e4,1e4]^3; attitudes of the pose, after the first and after the second transform drawn (|pitch| <= pi/2-1e-3, packed "
    "at the margin with weight 1/4), the rotations of the two rigid transforms derived from them (R1 = R(A1) R(A0)^T, R2 = R(A2) R(A1)^T, long "
    "double, rounded); translations in [-1e4,1e4]^3; first transform = identity with weight 1/7; 6x6 pose covariance as above. Non-trivial: "
    "non-identity transform and covariance with non-zero off-diagonal entries."},
  {"ellipse", ellipse,
    "Position2D with a 2x2 covariance R(theta) diag(l1,l2) R(theta)^T (axis-aligned / rotated / rank one / isotropic, theta uniform or packed "
    "around k*pi/4, condition < 1e8) or Pose2D with a 3x3 covariance from the generator above (its xy block is the ellipse's covariance); "
    "centre in [-1e4,1e4]^2; sigma scale 1, log-uniform in [1e-3,10], or 10. Non-trivial: xy covariance has a non-zero off-diagonal entry."},
};

}  // namespace

VF_HARNESS(kSubs)
